//! Scenario generators. Every random choice comes from one `Rng`, so `(profile, seed, index)`
//! replays exactly.
use crate::exec::Runner;
use crate::tape::{mix3, Rng};

pub const EMPTY: u8 = 0xFF;
pub const DELETED: u8 = 0x80;

#[derive(Clone, Debug)]
pub struct ScnSpec {
    pub id: String,
    pub coll: &'static str,
    pub drop: bool,
    pub lay: &'static str,
    pub universe: u64,
    pub plan_kind: &'static str,
    pub plan: Vec<(u64, u64)>,
    pub env: String,
    pub profile: &'static str,
    pub steps: usize,
}

pub fn mk_hash(pos: u64, tag: u64) -> u64 {
    ((tag & 0x7f) << 57) | (pos & ((1u64 << 57) - 1))
}

pub const PLAN_KINDS: &[&str] = &[
    "mixed", "const0", "constmax", "sequential", "cluster", "postag", "lsbtwins", "samepos",
    "sametag", "groupstride",
];

pub fn make_plan(kind: &str, universe: u64, rng: &mut Rng) -> Vec<(u64, u64)> {
    let c = 1 + rng.below(3);
    let npos = 1 + rng.below(4);
    let ntag = 1 + rng.below(3);
    let base = rng.next();
    (0..universe)
        .map(|k| {
            let r = mix3(base, k, 1);
            let h = match kind {
                "const0" => 0,
                "constmax" => u64::MAX,
                "sequential" => k,
                "cluster" => mk_hash((r % c) * 16 + (r >> 8) % 3, r >> 20),
                "postag" => mk_hash(((r % npos) * 37) % 256, 1 + (r >> 8) % ntag),
                "lsbtwins" => mk_hash((r % npos) * 8, 0x10 | ((r >> 8) & 1)),
                "samepos" => mk_hash(5, r >> 8),
                "sametag" => mk_hash(r >> 8, 0x2a),
                "groupstride" => mk_hash((r % 8) * 16, r >> 30),
                _ => r,
            };
            (k, h)
        })
        .collect()
}

/// Scripted construction (needs the `sequential` plan: key k hashes to k, home bucket k & mask) of a
/// two-group table, tombstone-saturated with len+1 <= capacity/2, in which the in-place rehash moves a
/// live element into the EMPTY bucket that the next vacant-entry insertion found before reserving:
/// A, Z at home s (Z lands on s+1), A removed (s EMPTY again), the rest of Z's group filled (b), Y with
/// home s+1 displaced by a whole group, the table filled up (c), the b's removed (tombstones). The
/// rehash brings Y home, which displaces Z, which goes to s.
pub fn stale_slot_script(rng: &mut Rng) -> std::collections::VecDeque<String> {
    let w = hashbrown::verif::GROUP_WIDTH;
    let n = 2 * w;
    let mask = n - 1;
    let cap = hashbrown::verif::bucket_mask_to_capacity(mask);
    let r = rng.below(w as u64) as usize;
    let key = |p: usize, j: usize| ((p + r) & mask) + n * j;
    let mut out = std::collections::VecDeque::new();
    out.push_back(format!("a with_capacity {}", cap));
    out.push_back(format!("INS {}", key(w - 1, 0)));
    out.push_back(format!("INS {}", key(w - 1, 1)));
    out.push_back(format!("a remove {}", key(w - 1, 0)));
    for i in w + 1..n {
        out.push_back(format!("INS {}", key(i, 0)));
    }
    out.push_back(format!("INS {}", key(w, 0)));
    let kc = cap - w - 1;
    for i in 1..=kc {
        out.push_back(format!("INS {}", key(i, 0)));
    }
    for i in w + 1..n {
        out.push_back(format!("a remove {}", key(i, 0)));
    }
    let extra = (cap / 2 + 2).saturating_sub(w);
    for i in 0..extra {
        out.push_back(format!("a remove {}", key(kc - i, 0)));
    }
    out.push_back(format!("INS {}", key(w - 1, 2)));
    out
}

/// Scripted construction (needs the `sequential` plan) of a four-group table whose spare capacity is all
/// tombstones and in which a fresh key X finds its first probe group full of DISPLACED elements and its
/// first free bucket EMPTY in the second probe group: `w` keys A with home p fill group p, `w` keys E with
/// the same home are displaced into the next group, the A's are removed (tombstones), fillers use up the
/// remaining growth and are removed again (tombstones, growth_left = 0, len = w <= capacity/2). Inserting X
/// (home = E's group) through the vacant-entry path picks the EMPTY bucket, must reserve, the in-place
/// rehash takes the E's home — X's first probe group is now free — and the slot picked BEFORE the rehash is
/// behind a group with EMPTY bytes. X and the E's are then looked up.
pub fn displaced_group_script(rng: &mut Rng, unlawful: bool) -> std::collections::VecDeque<String> {
    displaced_group_script_for(rng, unlawful, false)
}

/// `table`: the same construction through `HashTable::insert_unique` / `remove` / `find`.
pub fn displaced_group_script_for(rng: &mut Rng, unlawful: bool, table: bool) -> std::collections::VecDeque<String> {
    let w = hashbrown::verif::GROUP_WIDTH;
    let n = 4 * w;
    let mask = n - 1;
    let cap = hashbrown::verif::bucket_mask_to_capacity(mask);
    let r = rng.below(4) as usize * w;
    let key = |p: usize, j: usize| ((p + r) & mask) + n * j;
    let (ins, eins, look) = if table { ("TINS", "TINS", "find") } else { ("INS", "EINS", "get") };
    let mut out = std::collections::VecDeque::new();
    out.push_back(format!("a with_capacity {}", cap));
    for j in 0..w {
        out.push_back(format!("{} {}", ins, key(0, j)));
    }
    for j in 0..w {
        out.push_back(format!("{} {}", ins, key(0, w + j)));
    }
    for j in 0..w {
        out.push_back(format!("a remove {}", key(0, j)));
    }
    let spare = cap - 2 * w;
    let fill: Vec<usize> = (0..spare).map(|j| key(2 * w + w / 2, j)).collect();
    for k in &fill {
        out.push_back(format!("{} {}", ins, k));
    }
    for k in &fill {
        out.push_back(format!("a remove {}", k));
    }
    let x = key(w, 3);
    if unlawful {
        // from here on the hasher answers pseudo-randomly per call: the in-place rehash scatters the survivors,
        // possibly into the very bucket the insertion picked before reserving (C05)
        out.push_back(format!("env hash=mix:{}", rng.below(1 << 30)));
    }
    out.push_back(format!("{} {}", eins, x));
    out.push_back(format!("a {} {}", look, x));
    for j in 0..w {
        out.push_back(format!("a {} {}", look, key(0, w + j)));
    }
    out.push_back(format!("{} {}", eins, key(w, 4)));
    out.push_back(format!("a {} {}", look, key(w, 4)));
    out
}

/// Scripted construction (needs the `sequential` plan) of two maps with DIFFERENT bucket counts and EQUAL
/// `capacity()`: `small` gets `n` buckets (capacity 7n/8), `large` gets `2n` buckets, is filled to its load
/// limit and loses 7n/8 elements from inside a run of full buckets (tombstones: growth_left stays 0, so
/// capacity() = len = 7n/8). Then clone_from in one direction, look-ups, clone_from in the other.
pub fn capacity_twin_script(rng: &mut Rng) -> std::collections::VecDeque<String> {
    let w = hashbrown::verif::GROUP_WIDTH;
    let n = 2 * w;
    let cap_s = hashbrown::verif::bucket_mask_to_capacity(n - 1);
    let cap_l = hashbrown::verif::bucket_mask_to_capacity(2 * n - 1);
    let (small, large) = if rng.chance(1, 2) { ("a", "b") } else { ("b", "a") };
    let mut out = std::collections::VecDeque::new();
    out.push_back(format!("{} with_capacity {}", small, cap_s));
    for j in 0..rng.below(4) as usize {
        out.push_back(format!("SINS {} {}", small, 2 * n * 3 + j));
    }
    out.push_back(format!("{} with_capacity {}", large, cap_l));
    for j in 0..cap_l {
        out.push_back(format!("SINS {} {}", large, j));
    }
    for j in w..w + (cap_l - cap_s) {
        out.push_back(format!("{} remove {}", large, j));
    }
    let first = if rng.chance(1, 2) { small } else { large };
    let second = if first == small { large } else { small };
    out.push_back(format!("{} clone_from", first));
    for j in [0usize, w - 1, w, cap_l - 1] {
        out.push_back(format!("{} get {}", first, j));
    }
    out.push_back(format!("{} eq", first));
    out.push_back(format!("SINS {} {}", first, 2 * n * 5));
    out.push_back(format!("{} clone_from", second));
    out.push_back(format!("{} eq", second));
    out.push_back(format!("{} get {}", second, 2 * n * 5));
    out
}

/// Scripted construction (needs the `sequential` plan) for HashTable: `w + 1` elements with the same home
/// (the last one is displaced into the next probe group), then all but the displaced one are removed, so the
/// LAST remaining element sits outside its home group behind tombstones; it is removed through `find_entry`
/// and re-inserted through the returned `VacantEntry` (same bucket), looked up, removed by `retain`-free means
/// and looked up again.
pub fn last_displaced_script(rng: &mut Rng) -> std::collections::VecDeque<String> {
    let w = hashbrown::verif::GROUP_WIDTH;
    let n = 4 * w;
    let mask = n - 1;
    let cap = hashbrown::verif::bucket_mask_to_capacity(mask);
    let r = rng.below(4) as usize * w;
    let key = |j: usize| (r & mask) + n * j;
    let mut out = std::collections::VecDeque::new();
    out.push_back(format!("a with_capacity {}", cap));
    for j in 0..=w {
        out.push_back(format!("TINS {}", key(j)));
    }
    for j in 0..w {
        out.push_back(format!("a remove {}", key(j)));
    }
    out.push_back(format!("TREINS {}", key(w)));
    out.push_back(format!("a find {}", key(w)));
    out.push_back(format!("a iter_hash {}", key(w)));
    out.push_back(format!("TINS {}", key(w + 1)));
    out.push_back(format!("a find {}", key(w)));
    out.push_back(format!("a find {}", key(w + 1)));
    out
}

/// Scripted construction (needs the `sequential` plan) for maps: a table filled to exactly its capacity with
/// keys at consecutive positions and then emptied by removals in order — every erase leaves a tombstone, so the
/// table ends allocated with `items == 0` AND `growth_left == 0` (`capacity() == 0`). Then one of the operations
/// that hand an emptied table back (drain, clear, shrink, reserve, retain, extract_if, clone, insert) and a refill.
pub fn tombstone_full_script(rng: &mut Rng) -> std::collections::VecDeque<String> {
    let w = hashbrown::verif::GROUP_WIDTH;
    let n = *rng.pick(&[2 * w, 4 * w, 4 * w, 8 * w]);
    let cap = hashbrown::verif::bucket_mask_to_capacity(n - 1);
    let mut out = std::collections::VecDeque::new();
    out.push_back(format!("a with_capacity {}", cap));
    for k in 0..cap {
        out.push_back(format!("INS {}", k));
    }
    match rng.below(3) {
        0 => {
            for k in 0..cap {
                out.push_back(format!("a remove {}", k));
            }
        }
        1 => {
            for k in 0..cap - 1 {
                out.push_back(format!("a remove {}", k));
            }
            out.push_back(format!("a remove_entry {}", cap - 1));
        }
        _ => {
            // any order works: the non-EMPTY run around every position stays at least one group long
            let mut ks: Vec<usize> = (0..cap).collect();
            for i in (1..ks.len()).rev() {
                ks.swap(i, rng.below(i as u64 + 1) as usize);
            }
            for k in ks {
                out.push_back(format!("a remove {}", k));
            }
        }
    }
    for _ in 0..1 + rng.below(2) {
        out.push_back(
            match rng.below(10) {
                0 | 1 | 2 => format!("a drain {} 0", rng.below(3)),
                3 => "a drain_fold 0".to_string(),
                4 => "a clear".to_string(),
                5 => "a shrink_to_fit".to_string(),
                6 => format!("a reserve {}", rng.below(4)),
                7 => "a extract_if 4".to_string(),
                8 => format!("a get {}", rng.below(cap as u64)),
                _ => format!("INS {}", n + rng.below(8) as usize),
            },
        );
    }
    for _ in 0..3 {
        let k = rng.below(2 * n as u64);
        out.push_back(format!("INS {}", k));
        out.push_back(format!("a get {}", k));
    }
    out
}

/// Scripted construction (needs the `sequential` plan) for maps: `w + 1` keys with the same home (the last one is
/// displaced into the next probe group), all but the displaced one removed (tombstones in front of it), then the
/// LAST remaining element is updated in place through `replace_entry_with` / `and_replace_entry_with` (the pair
/// is taken out of its bucket and put back), looked up, and a fresh key is inserted and looked up.
pub fn last_displaced_map_script(rng: &mut Rng) -> std::collections::VecDeque<String> {
    let w = hashbrown::verif::GROUP_WIDTH;
    let n = 4 * w;
    let mask = n - 1;
    let cap = hashbrown::verif::bucket_mask_to_capacity(mask);
    let r = rng.below(4) as usize * w;
    let key = |j: usize| (r & mask) + n * j;
    let extra = rng.below(w as u64 / 2) as usize;
    let mut out = std::collections::VecDeque::new();
    out.push_back(format!("a with_capacity {}", cap));
    for j in 0..=w + extra {
        out.push_back(format!("INS {}", key(j)));
    }
    for j in 0..w + extra {
        out.push_back(format!("a remove {}", key(j)));
    }
    let last = key(w + extra);
    out.push_back(format!("REPL {}", last));
    out.push_back(format!("a get {}", last));
    out.push_back(format!("INS {}", key(w + extra + 1)));
    out.push_back(format!("a get {}", last));
    out.push_back(format!("a get {}", key(w + extra + 1)));
    out
}

/// Scripted construction (needs the `const0` plan: every key hashes to 0, so insertion order = probe
/// order) of a 128-bucket table in which the in-place rehash meets an element whose ideal group is
/// visited EARLIER by the triangular probe but lies LATER in linear order than the group it sits in:
/// fill to capacity, remove everything except the first `v` visited groups (which are also the first `v`
/// linear groups) and three elements of the visited group `u > v` that is linear group `v`; the next
/// insertion finds `growth_left == 0` with at most half the capacity live and rehashes in place; the
/// survivors are then looked up. `table`: HashTable ops (`insert_unique`/`find`) instead of map ops.
pub fn chain_rehash_script(table: bool) -> std::collections::VecDeque<String> {
    let w = hashbrown::verif::GROUP_WIDTH;
    let n = 128usize;
    let mask = n - 1;
    let cap = hashbrown::verif::bucket_mask_to_capacity(mask);
    let lin: Vec<usize> = hashbrown::verif::probe_positions(0, mask, n / w).iter().map(|p| p / w).collect();
    let mut out = std::collections::VecDeque::new();
    let v = match (0..lin.len()).find(|&t| lin[t] != t) {
        Some(v) => v,
        None => return out,
    };
    let u = match (v + 1..lin.len()).find(|&t| lin[t] == v) {
        Some(u) if u * w + 3 <= cap => u,
        _ => return out,
    };
    let ins = if table { "TINS" } else { "INS" };
    let look = if table { "find" } else { "get" };
    out.push_back(format!("a with_capacity {}", cap));
    for j in 0..cap {
        out.push_back(format!("{} {}", ins, j));
    }
    let keep = |j: usize| j / w < v || (j / w == u && j % w < 3);
    for j in 0..cap {
        if !keep(j) {
            out.push_back(format!("a remove {}", j));
        }
    }
    out.push_back(format!("{} {}", ins, cap));
    for j in (0..cap).filter(|&j| keep(j)) {
        out.push_back(format!("a {} {}", look, j));
    }
    out.push_back(format!("a {} {}", look, cap));
    out
}

/// First EMPTY/DELETED bucket on the probe sequence of `hash` (tables of at least one group).
pub fn first_special(ctrl: &[u8], mask: usize, hash: u64) -> Option<(usize, u8)> {
    let w = hashbrown::verif::GROUP_WIDTH;
    for pos in hashbrown::verif::probe_positions(hash, mask, (mask + 1) / w + 2) {
        for j in 0..w {
            let i = (pos + j) & mask;
            if ctrl[i] & 0x80 != 0 {
                return Some((i, ctrl[i]));
            }
        }
    }
    None
}

/// Generator-side sketch of `rehash_in_place` on a control-byte dump (`keys` = stored keys in bucket
/// order, hashed by the plan). Only used to steer key choice; `None` for tables below two groups.
pub fn sim_rehash_in_place(ctrl: &[u8], mask: usize, keys: &[u64]) -> Option<Vec<u8>> {
    let w = hashbrown::verif::GROUP_WIDTH;
    let n = mask + 1;
    if n < 2 * w {
        return None;
    }
    let mut c: Vec<u8> = ctrl[..n].to_vec();
    let mut slot: Vec<Option<u64>> = vec![None; n];
    let mut it = keys.iter();
    for i in 0..n {
        if c[i] & 0x80 == 0 {
            slot[i] = Some(*it.next()?);
            c[i] = 0x80;
        } else {
            c[i] = 0xFF;
        }
    }
    for i in 0..n {
        if c[i] != 0x80 {
            continue;
        }
        for _ in 0..n + 1 {
            let h = crate::tape::plan_hash(slot[i]?);
            let (ni, prev) = first_special(&c, mask, h)?;
            if hashbrown::verif::is_in_same_group(i, ni, h, mask) {
                c[i] = hashbrown::verif::tag_full(h);
                break;
            }
            c[ni] = hashbrown::verif::tag_full(h);
            if prev == 0xFF {
                c[i] = 0xFF;
                slot[ni] = slot[i].take();
                break;
            }
            slot.swap(i, ni);
        }
    }
    Some(c)
}

pub struct Gen {
    pub rng: Rng,
    pub universe: u64,
    pub next_id: u64,
    pub profile: &'static str,
    pub phase: u32,
    pub fresh_key: u64,
    pub target_buckets: usize,
    /// profile name (a generator may serve several profiles)
    pub variant: &'static str,
    pub flipped: bool,
    /// steering: remove every live key of `a` one by one (an EMPTIED table that still holds tombstones)
    pub emptying: bool,
    /// scripted prelude (ops issued before the generator takes over); `INS k` = insertion of key k
    pub script: std::collections::VecDeque<String>,
}

impl Gen {
    pub fn new(seed: u64, universe: u64, profile: &'static str) -> Self {
        let mut rng = Rng::new(seed);
        let target_buckets = if profile == "table-churn" { *rng.pick(&[32usize, 64, 128, 128, 256]) } else { *rng.pick(&[16usize, 16, 32, 32, 64, 128]) };
        Gen { rng, universe, next_id: 1, profile, phase: 0, fresh_key: 0, target_buckets, variant: profile, flipped: false, emptying: false, script: Default::default() }
    }
    pub fn id(&mut self) -> u64 {
        let i = self.next_id;
        self.next_id += 1;
        i
    }
    pub fn key(&mut self) -> u64 {
        self.rng.below(self.universe)
    }
    pub fn insert(&mut self, k: u64) -> String {
        if self.variant == "entry-sat" && self.rng.chance(4, 5) {
            // the same traffic through the vacant-entry insertion primitive (`RawTable::insert`, which
            // probes, reserves, and must probe again)
            let (kid, vid) = (self.id(), self.id());
            let v = 100 + self.rng.below(50);
            return match self.rng.below(7) {
                0 => format!("entry {} {} or_insert {} {}", k, kid, vid, v),
                1 => format!("entry {} {} insert {} {}", k, kid, vid, v),
                2 => format!("entry_ref {} {} or_insert {} {}", k, kid, vid, v),
                3 => format!("raw_from_key {} vac_insert {} {} {}", k, kid, vid, v),
                4 => format!("raw_from_key {} or_insert {} {} {}", k, kid, vid, v),
                5 => format!("rustc_entry {} {} or_insert {} {}", k, kid, vid, v),
                _ => format!("try_insert {} {} {} {}", k, kid, vid, v),
            };
        }
        let (kid, vid) = (self.id(), self.id());
        format!("insert {} {} {} {}", k, kid, vid, 100 + self.rng.below(50))
    }
    pub fn present_key(&mut self, r: &dyn Runner, tgt: &str) -> Option<u64> {
        let ks = r.keys(tgt);
        if ks.is_empty() {
            None
        } else {
            Some(*self.rng.pick(&ks))
        }
    }

    /// Next op line (without the leading `op`), e.g. `a insert 3 7 8 101`.
    pub fn next(&mut self, r: &dyn Runner) -> String {
        if let Some(op) = self.script.pop_front() {
            if let Some(k) = op.strip_prefix("TINS ") {
                let id = self.id();
                return format!("a insert_unique {} {} {}", k, id, 100 + self.rng.below(50));
            }
            if let Some(k) = op.strip_prefix("REPL ") {
                // in-place update through replace_entry_with (keep) of one of the entry families
                let kid = self.id();
                let nv = 500 + self.rng.below(100);
                return match self.rng.below(4) {
                    0 => format!("a entry {} {} replace_entry_with keep {}", k, kid, nv),
                    1 => format!("a entry {} {} and_replace_entry_with keep {}", k, kid, nv),
                    2 => format!("a raw_from_key {} replace_entry_with keep {}", k, nv),
                    _ => format!("a raw_from_hash {} replace_entry_with keep {}", k, nv),
                };
            }
            if let Some(k) = op.strip_prefix("TREINS ") {
                // find_entry(k) -> OccupiedEntry::remove -> VacantEntry::insert of a fresh element with key k
                let id = self.id();
                return format!("a find_entry_remove_reinsert {} {} {}", k, id, 100 + self.rng.below(50));
            }
            if let Some(rest) = op.strip_prefix("SINS ") {
                // plain insert into the named side
                let (side, k) = rest.split_once(' ').unwrap();
                let (kid, vid) = (self.id(), self.id());
                return format!("{} insert {} {} {} {}", side, k, kid, vid, 100 + self.rng.below(50));
            }
            if let Some(k) = op.strip_prefix("EINS ") {
                // insertion of an absent key through `RawTable::insert` (probe, reserve, probe again)
                let (kid, vid) = (self.id(), self.id());
                let v = 100 + self.rng.below(50);
                return match self.rng.below(5) {
                    0 => format!("a entry {} {} or_insert {} {}", k, kid, vid, v),
                    1 => format!("a entry {} {} insert {} {}", k, kid, vid, v),
                    2 => format!("a entry_ref {} {} or_insert {} {}", k, kid, vid, v),
                    3 => format!("a raw_from_key {} vac_insert {} {} {}", k, kid, vid, v),
                    _ => format!("a try_insert {} {} {} {}", k, kid, vid, v),
                };
            }
            return match op.strip_prefix("INS ") {
                Some(k) => format!("a {}", self.insert(k.parse().unwrap())),
                None => op,
            };
        }
        // Steering shared by the single-collection profiles: now and then a tombstone-carrying table is
        // emptied by removals (len 0, removed-slot markers still there) and then cleared / refilled.
        if matches!(self.variant, "churn" | "churn-long" | "churn-window" | "saturate" | "mixed" | "table" | "table-churn" | "set" | "retain-chain") {
            let d = r.dump("a");
            let tomb = !d.is_singleton && d.ctrl[..=d.bucket_mask].iter().any(|&c| c == 0x80);
            if d.items == 0 {
                let was = std::mem::replace(&mut self.emptying, false);
                if tomb && (was || self.rng.chance(1, 2)) {
                    return "a clear".to_string();
                }
            } else if self.emptying {
                if let Some(k) = self.present_key(r, "a") {
                    return format!("a remove {}", k);
                }
            } else if tomb && d.items <= 48 && self.rng.chance(1, 70) {
                self.emptying = true;
            }
        }
        match self.profile {
            "grow" => {
                let x = self.rng.below(10);
                if x < 7 {
                    let k = self.key();
                    format!("a {}", self.insert(k))
                } else if x < 9 {
                    format!("a get {}", self.key())
                } else {
                    format!("a remove {}", self.key())
                }
            }
            "churn" if self.variant == "churn-window" => {
                // sliding window of live keys (C13): insert the next fresh key, remove the oldest once the
                // window is full. Under position-preserving plans the removals sit at the edge of a run of
                // at least one group of full buckets, so every one of them leaves a tombstone: growth_left
                // drains with a bounded live size, and only in-place reclamation keeps the table bounded.
                let win = (self.target_buckets / 2 + 4) as u64;
                let live = r.dump("a").items as u64;
                let x = self.rng.below(100);
                if x < 6 {
                    format!("a get {}", self.rng.below(self.fresh_key + 2) % self.universe)
                } else if live >= win {
                    let oldest = (self.fresh_key + self.universe - live) % self.universe;
                    format!("a remove {}", oldest)
                } else {
                    let k = self.fresh_key % self.universe;
                    self.fresh_key += 1;
                    format!("a {}", self.insert(k))
                }
            }
            "churn" => {
                let x = self.rng.below(100);
                let k = self.key();
                if x < 40 {
                    format!("a {}", self.insert(k))
                } else if x < 75 {
                    format!("a remove {}", k)
                } else if x < 85 {
                    format!("a get {}", k)
                } else if x < 90 {
                    format!("a remove_entry {}", k)
                } else if x < 95 {
                    format!("a getmut {} {}", k, 500 + self.rng.below(100))
                } else {
                    format!("a contains {}", k)
                }
            }
            "saturate" => self.saturate(r),
            "retainchain" => {
                // C10 / C01: long collision chains (several probe groups), then bulk removal through
                // retain / extract_if (erase behind the iterator, EMPTY-vs-DELETED choice at group edges),
                // then look-ups of the survivors and re-insertion of removed keys.
                let d = r.dump("a");
                let live = d.items as u64;
                match self.phase {
                    0 => {
                        // grow to a target well above two groups
                        if live >= self.target_buckets as u64 / 2 + 24 || self.rng.chance(1, 60) {
                            self.phase = 1;
                        }
                        let k = self.key();
                        format!("a {}", self.insert(k))
                    }
                    1 => {
                        self.phase = 2;
                        self.fresh_key = 0;
                        match self.rng.below(4) {
                            0 => format!("a extract_if {}", self.rng.below(live + 2)),
                            1 => format!("a extract_if {}", live + 1),
                            _ => "a retain".to_string(),
                        }
                    }
                    _ => {
                        self.fresh_key += 1;
                        if self.fresh_key > 14 + self.rng.below(10) {
                            self.phase = if self.rng.chance(1, 3) { 1 } else { 0 };
                        }
                        let x = self.rng.below(10);
                        if x < 7 {
                            match self.present_key(r, "a") {
                                Some(k) => format!("a get {}", k),
                                None => format!("a get {}", self.key()),
                            }
                        } else if x < 9 {
                            let k = self.key();
                            format!("a {}", self.insert(k))
                        } else {
                            format!("a remove {}", self.key())
                        }
                    }
                }
            }
            "clone" => {
                // clone / clone_from between a and b in every size relation, then mutate either side
                let x = self.rng.below(100);
                let k = self.key();
                let tgt = if self.rng.chance(1, 2) { "b" } else { "a" };
                if x < 30 {
                    format!("{} {}", tgt, self.insert(k))
                } else if x < 42 {
                    format!("{} remove {}", tgt, k)
                } else if x < 52 {
                    format!("{} clone_to_other", tgt)
                } else if x < 66 {
                    format!("{} clone_from", tgt)
                } else if x < 80 {
                    format!("{} {}eq", tgt, if self.rng.chance(1, 5) { "self_" } else { "" })
                } else if x < 84 {
                    format!("{} getmut {} {}", tgt, k, 500 + self.rng.below(100))
                } else if x < 88 {
                    format!("{} reserve {}", tgt, self.rng.below(80))
                } else if x < 91 {
                    format!("{} shrink_to_fit", tgt)
                } else if x < 94 {
                    format!("{} clear", tgt)
                } else if x < 96 {
                    format!("{} with_capacity {}", tgt, self.rng.below(40))
                } else if x < 98 {
                    format!("{} nop", tgt)
                } else {
                    format!("{} get {}", tgt, k)
                }
            }
            "xback" => {
                // layout-independent operations only (results must not depend on iteration order)
                let x = self.rng.below(100);
                let k = self.key();
                let tgt = if self.rng.chance(1, 4) { "b" } else { "a" };
                if x < 35 {
                    format!("{} {}", tgt, self.insert(k))
                } else if x < 55 {
                    format!("{} remove {}", tgt, k)
                } else if x < 65 {
                    format!("{} get {}", tgt, k)
                } else if x < 70 {
                    format!("{} getmut {} {}", tgt, k, 500 + self.rng.below(100))
                } else if x < 75 {
                    format!("{} remove_entry {}", tgt, k)
                } else if x < 79 {
                    format!("{} reserve {}", tgt, self.rng.below(60))
                } else if x < 83 {
                    format!("{} shrink_to {}", tgt, self.rng.below(40))
                } else if x < 86 {
                    format!("{} shrink_to_fit", tgt)
                } else if x < 89 {
                    format!("{} clear", tgt)
                } else if x < 93 {
                    format!("{} {}eq", tgt, if self.rng.chance(1, 5) { "self_" } else { "" })
                } else if x < 95 {
                    format!("{} try_reserve {}", tgt, self.rng.below(60))
                } else if x < 97 {
                    format!("{} with_capacity {}", tgt, self.rng.below(40))
                } else {
                    format!("{} contains {}", tgt, k)
                }
            }
            "iter" => {
                // every iterator kind, at every prefix length, in many occupancy patterns
                let x = self.rng.below(100);
                let k = self.key();
                let tgt = if self.rng.chance(1, 5) { "b" } else { "a" };
                if x < 30 {
                    format!("{} {}", tgt, self.insert(k))
                } else if x < 45 {
                    format!("{} remove {}", tgt, k)
                } else if x < 85 {
                    let len = r.dump(tgt).items as u64;
                    let p = match self.rng.below(4) {
                        0 => 0,
                        1 => len,
                        2 => len + 1 + self.rng.below(3),
                        _ => self.rng.below(len + 1),
                    };
                    let v = *self.rng.pick(&["iter", "keys", "values", "iter_mut", "values_mut"]);
                    format!("{} iter {} {}{}", tgt, p, v, if self.rng.chance(1, 4) { " nth" } else { "" })
                } else if x < 90 {
                    if self.rng.chance(1, 3) { format!("{} drain_fold {}", tgt, self.rng.below(8)) } else { format!("{} drain {} 0", tgt, self.rng.below(8)) }
                } else if x < 94 {
                    if self.rng.chance(1, 3) { format!("{} into_iter_fold {}", tgt, self.rng.below(8)) } else { format!("{} into_iter {}", tgt, self.rng.below(8)) }
                } else if x < 96 {
                    format!("{} with_capacity {}", tgt, self.rng.below(40))
                } else if x < 98 {
                    format!("{} clear", tgt)
                } else {
                    format!("{} shrink_to_fit", tgt)
                }
            }
            "reserve" => {
                // capacity API under load: boundary-dense reserve / try_reserve / shrink_to
                let x = self.rng.below(100);
                let d = r.dump("a");
                let cap = (d.items + d.growth_left) as u64;
                let k = self.key();
                if x < 30 {
                    format!("a {}", self.insert(k))
                } else if x < 40 {
                    format!("a remove {}", k)
                } else if x < 65 {
                    let n = match self.rng.below(8) {
                        0 => 0,
                        1 => d.growth_left as u64,
                        2 => d.growth_left as u64 + 1,
                        // relative to the current capacity, but bounded: repeated 4x requests would
                        // otherwise compound into tables of 10^8 buckets
                        3 => (cap + self.rng.below(3)).min(6000),
                        4 => self.rng.below(4 * (cap + 1)).min(6000),
                        5 => u64::MAX - self.rng.below(3),
                        // at and above isize::MAX / size_of::<T>(): must report CapacityOverflow (requests
                        // that pass the layout checks but exceed physical memory are left to the
                        // allocator-refusal sweeps, where the refusal is scripted on both sides)
                        6 => (i64::MAX as u64) / (r.layout().0.max(1) as u64) + self.rng.below(3),
                        _ => (1u64 << (3 + self.rng.below(10))) / 8 * 7 + self.rng.below(3),
                    };
                    format!("a try_reserve {}", n)
                } else if x < 75 {
                    format!("a reserve {}", self.rng.below(3 * (cap + 2)).min(6000))
                } else if x < 88 {
                    let m = match self.rng.below(4) {
                        0 => 0,
                        1 => d.items as u64,
                        2 => self.rng.below(2 * (cap + 1)),
                        _ => cap + self.rng.below(5),
                    };
                    format!("a shrink_to {}", m)
                } else if x < 92 {
                    "a shrink_to_fit".to_string()
                } else if x < 95 {
                    format!("a with_capacity {}", self.rng.below(100))
                } else if x < 97 {
                    "a clear".to_string()
                } else {
                    format!("a drain {} 0", self.rng.below(6))
                }
            }
            "par" => crate::par_runner::next_op(self, r),
            p if p.starts_with("table") || p == "xback-table" => crate::gen_ext::next_table(self, r),
            p if p.starts_with("set") => crate::gen_ext::next_set(self, r),
            p if p.starts_with("entry") => crate::gen_ext::next_entry(self, r),
            p if p.starts_with("serde") => crate::serde_runner::next_op(self, r),
            _ => self.mixed(r),
        }
    }

    /// Fill until `growth_left == 0`, delete from inside full runs until `items < cap/2`, then
    /// insert fresh keys: the only reliable way into `rehash_in_place`.
    fn saturate(&mut self, r: &dyn Runner) -> String {
        let d = r.dump("a");
        let cap = hashbrown::verif::bucket_mask_to_capacity(d.bucket_mask);
        match self.phase {
            0 => {
                if !d.is_singleton && d.growth_left == 0 && d.bucket_mask + 1 >= self.target_buckets {
                    self.phase = 1;
                    return self.saturate(r);
                }
                // fresh keys only (the universe is large enough)
                let k = self.fresh_key;
                self.fresh_key += 1;
                format!("a {}", self.insert(k % self.universe))
            }
            1 => {
                if (d.items + 1) * 2 <= cap || d.items == 0 {
                    self.phase = 2;
                    return self.saturate(r);
                }
                // mostly keys whose removal leaves a tombstone, so that growth_left stays 0
                // (entry-sat: more removals that leave EMPTY, so that displaced elements have a bucket to move back to)
                let tomb = if self.variant == "entry-sat" { 2 } else { 9 };
                let den = if self.variant == "entry-sat" { 3 } else { 10 };
                let k = if self.rng.chance(tomb, den) { crate::gen_ext::ent_tomb_key(self, r) } else { None };
                match k.or_else(|| self.present_key(r, "a")) {
                    Some(k) => format!("a remove {}", k),
                    None => {
                        self.phase = 2;
                        self.saturate(r)
                    }
                }
            }
            2 if self.variant == "broken-sat" && !self.flipped => {
                // tombstone-saturated table built lawfully; from here on Hash answers differently on
                // every call, so the in-place rehash relocates elements arbitrarily
                self.flipped = true;
                format!("env hash=mix:{}", self.rng.below(1 << 30))
            }
            2 if self.variant != "entry-sat" && d.growth_left == 0 && self.rng.chance(1, 4) => {
                // capacity()==len() with tombstones: the state where shrink_to must not trust capacity()
                self.phase = 3;
                match self.rng.below(3) {
                    0 => "a shrink_to_fit".to_string(),
                    1 => format!("a shrink_to {}", self.rng.below(d.items as u64 + 3)),
                    _ => format!("a shrink_to {}", d.items as u64 + self.rng.below(2 * cap as u64 + 2)),
                }
            }
            2 if self.variant == "entry-sat" && !d.is_singleton && d.growth_left == 0 && self.rng.chance(4, 5) => {
                // an absent key whose first free bucket is EMPTY (not a tombstone): the vacant-entry
                // insertion probes, must reserve (in-place rehash when len+1 <= capacity/2) and probe again
                let present = r.keys("a");
                // what an in-place rehash would make of the table (steering only: the best candidates are
                // keys whose pre-reserve bucket is taken, or no longer the first free one, afterwards)
                let after = sim_rehash_in_place(&d.ctrl, d.bucket_mask, &present);
                let mut pick = None;
                let mut rank = 0;
                for _ in 0..400 {
                    let k = self.rng.below(self.universe);
                    if present.contains(&k) {
                        continue;
                    }
                    let h = crate::tape::plan_hash(k);
                    if let Some((s, 0xFF)) = first_special(&d.ctrl, d.bucket_mask, h) {
                        let rk = match &after {
                            Some(a) if a[s] & 0x80 == 0 => 3,
                            Some(a) if first_special(a, d.bucket_mask, h).map(|x| x.0) != Some(s) => 2,
                            _ => 1,
                        };
                        if rk > rank {
                            rank = rk;
                            pick = Some(k);
                        }
                        if rank == 3 || (rank == 2 && self.rng.chance(1, 40)) {
                            break;
                        }
                    }
                }
                if std::env::var("HBV_DEBUG").is_ok() {
                    eprintln!("entry-sat pick rank={} sim={} items={} mask={}", rank, after.is_some(), d.items, d.bucket_mask);
                }
                let k = pick.unwrap_or_else(|| {
                    self.fresh_key += 1;
                    (self.fresh_key - 1) % self.universe
                });
                if self.rng.chance(1, 3) {
                    self.phase = 3;
                }
                format!("a {}", self.insert(k))
            }
            2 => {
                // insert fresh keys until the table has rehashed (growth_left > 0 again), then mix
                let k = self.fresh_key;
                self.fresh_key += 1;
                if d.growth_left > 0 && self.rng.chance(1, 3) {
                    self.phase = 3;
                }
                format!("a {}", self.insert(k % self.universe))
            }
            _ => {
                if self.flipped {
                    self.flipped = false;
                    self.phase = 0;
                    return "env hash=plan".to_string();
                }
                if self.variant == "entry-sat" && self.rng.chance(5, 6) {
                    // straight into the next fill / punch / insert cycle
                    self.phase = 0;
                    let w = hashbrown::verif::GROUP_WIDTH;
                    self.target_buckets = *self.rng.pick(&[2 * w, 2 * w, 4 * w]);
                    if d.bucket_mask + 1 > self.target_buckets {
                        return "a shrink_to_fit".to_string();
                    }
                    return self.saturate(r);
                }
                if self.rng.chance(1, 12) {
                    self.phase = 0;
                }
                self.mixed(r)
            }
        }
    }

    pub fn mixed(&mut self, r: &dyn Runner) -> String {
        let x = self.rng.below(1000);
        let k = self.key();
        let tgt = if self.rng.chance(1, 6) { "b" } else { "a" };
        if x < 330 {
            format!("{} {}", tgt, self.insert(k))
        } else if x < 480 {
            format!("{} remove {}", tgt, k)
        } else if x < 560 {
            format!("{} get {}", tgt, k)
        } else if x < 590 {
            format!("{} getmut {} {}", tgt, k, 500 + self.rng.below(100))
        } else if x < 620 {
            format!("{} remove_entry {}", tgt, k)
        } else if x < 640 {
            format!("{} contains {}", tgt, k)
        } else if x < 655 {
            format!("{} clear", tgt)
        } else if x < 690 {
            let d = r.dump(tgt);
            let n = match self.rng.below(4) {
                0 => self.rng.below(4),
                1 => d.growth_left as u64 + self.rng.below(3),
                2 => self.rng.below(4 * (d.items + d.growth_left + 1) as u64).min(6000),
                _ => self.rng.below(70),
            };
            format!("{} reserve {}", tgt, n)
        } else if x < 715 {
            format!("{} try_reserve {}", tgt, self.rng.below(80))
        } else if x < 745 {
            let d = r.dump(tgt);
            format!("{} shrink_to {}", tgt, self.rng.below(2 * (d.items + d.growth_left + 1) as u64))
        } else if x < 765 {
            format!("{} shrink_to_fit", tgt)
        } else if x < 795 {
            format!("{} retain", tgt)
        } else if x < 820 {
            format!("{} extract_if {}", tgt, self.rng.below(12))
        } else if x < 840 {
            if self.rng.chance(1, 3) { format!("{} drain_fold {}", tgt, self.rng.below(12)) } else { format!("{} drain {} {}", tgt, self.rng.below(12), if self.rng.chance(1, 5) { 1 } else { 0 }) }
        } else if x < 850 {
            if self.rng.chance(1, 3) { format!("{} into_iter_fold {}", tgt, self.rng.below(12)) } else { format!("{} into_iter {}", tgt, self.rng.below(12)) }
        } else if x < 900 {
            let v = *self.rng.pick(&["iter", "keys", "values"]);
            format!("{} iter {} {}{}", tgt, self.rng.below(10), v, if self.rng.chance(1, 4) { " nth" } else { "" })
        } else if x < 915 {
            format!("{} with_capacity {}", tgt, self.rng.below(60))
        } else if x < 940 {
            format!("{} clone_to_other", tgt)
        } else if x < 965 {
            format!("{} clone_from", tgt)
        } else if x < 985 {
            format!("{} {}eq", tgt, if self.rng.chance(1, 5) { "self_" } else { "" })
        } else {
            format!("{} nop", tgt)
        }
    }
}
