//! Pure-function observations through the `hashbrown::verif` wrappers (C17, C18).
use crate::tape::{mix3, Rng};
use hashbrown::verif as hv;
use std::fmt::Write as _;

fn hex(b: &[u8]) -> String {
    b.iter().map(|x| format!("{:02x}", x)).collect()
}
fn unhex(s: &str) -> Vec<u8> {
    (0..s.len() / 2).map(|i| u8::from_str_radix(&s[2 * i..2 * i + 2], 16).unwrap()).collect()
}
fn nats(v: &[usize]) -> String {
    v.iter().map(|x| x.to_string()).collect::<Vec<_>>().join(",")
}
fn opt(o: Option<usize>) -> String {
    o.map_or("none".into(), |b| format!("some {}", b))
}

/// `eval` with a panic of the real function (overflow check, assertion) reported as the observation,
/// followed by the direct arithmetic oracle of C17 / C12 on the value the real function returned.
pub fn eval_caught(toks: &[&str]) -> String {
    let r = std::panic::catch_unwind(std::panic::AssertUnwindSafe(|| eval(toks)));
    let mut s = match r {
        Ok(s) => s,
        Err(p) => {
            let msg = p.downcast_ref::<String>().cloned().or_else(|| p.downcast_ref::<&str>().map(|x| x.to_string())).unwrap_or_default();
            format!("panic ORACLE-ARITH(the_function_panicked:_{})", msg.replace([' ', '(', ')'], "_"))
        }
    };
    if let Some(why) = arith_oracle(toks, &s) {
        s.push_str(&format!(" ORACLE-ARITH({})", why.replace([' ', '(', ')'], "_")));
    }
    s
}

/// Property C17 evaluated directly on what the implementation returned (independent of the model):
/// a layout that is returned must be a valid `Layout` (size rounded up to the alignment at most
/// isize::MAX), hold `buckets` elements below the control bytes without overlap, and place the control
/// bytes at a multiple of the control alignment; a bucket count that is returned must be a power of two
/// whose usable capacity covers the request.
fn arith_oracle(toks: &[&str], got: &str) -> Option<String> {
    let n = |i: usize| -> u128 { toks[i].parse::<u128>().unwrap() };
    let w = hv::GROUP_WIDTH as u128;
    match (toks[0], toks[1]) {
        ("fn", "layout") => {
            let f: Vec<&str> = got.split_whitespace().collect();
            if f.first() != Some(&"some") {
                return None;
            }
            let (len, align, off): (u128, u128, u128) = (f[1].parse().ok()?, f[2].parse().ok()?, f[3].parse().ok()?);
            let (size, ctrl_align, buckets) = (n(2), n(3), n(4));
            if align != ctrl_align {
                return Some(format!("layout align {} is not the control alignment {}", align, ctrl_align));
            }
            if len > (isize::MAX as u128) - (align - 1) {
                return Some(format!("layout size {} exceeds isize::MAX - (align-1): not a valid Layout", len));
            }
            if off % align != 0 {
                return Some(format!("control offset {} is not a multiple of {}", off, align));
            }
            if size * buckets > off {
                return Some(format!("{} elements of {} bytes do not fit below control offset {}", buckets, size, off));
            }
            if len != off + buckets + w {
                return Some(format!("layout size {} != ctrl offset {} + buckets {} + group width", len, off, buckets));
            }
            None
        }
        ("fn", "c2b") => {
            let f: Vec<&str> = got.split_whitespace().collect();
            if f.first() != Some(&"some") {
                return None;
            }
            let b: u128 = f[1].parse().ok()?;
            let cap = n(2);
            let c = hv::bucket_mask_to_capacity((b - 1) as usize) as u128;
            if !(b as u64).is_power_of_two() || c < cap || c >= b {
                return Some(format!("capacity_to_buckets({}) = {}: not a power of two covering the request (usable {})", cap, b, c));
            }
            None
        }
        _ => None,
    }
}

/// Evaluate one `fn …` / `fnrange …` line on the real code.
pub fn eval(toks: &[&str]) -> String {
    let n = |i: usize| -> usize { toks[i].parse::<u128>().unwrap() as usize };
    let w = hv::GROUP_WIDTH;
    match (toks[0], toks[1]) {
        ("fn", "c2b") => opt(hv::capacity_to_buckets(n(2), n(3), w)),
        ("fn", "bm2c") => hv::bucket_mask_to_capacity(n(2)).to_string(),
        ("fn", "layout") => match hv::calculate_layout_for(n(2), n(3), n(4)) {
            None => "none".into(),
            Some((s, a, o)) => format!("some {} {} {}", s, a, o),
        },
        ("fn", "probe") => nats(&hv::probe_positions(toks[2].parse().unwrap(), n(3), n(4))),
        ("fn", "tag") => {
            let h: u64 = toks[2].parse().unwrap();
            format!("{} {}", hv::tag_full(h), hv::h1(h))
        }
        ("fn", "tagbits") => {
            let b = n(2) as u8;
            // `special_is_empty` is only defined on special bytes (debug assertion in the source)
            let sie = if hv::tag_is_special(b) { hv::tag_special_is_empty(b).to_string() } else { "na".into() };
            format!("{} {} {}", hv::tag_is_full(b), hv::tag_is_special(b), sie)
        }
        ("fn", "samegroup") => hv::is_in_same_group(n(2), n(3), toks[4].parse().unwrap(), n(5)).to_string(),
        ("fn", "grp") => {
            let g = unhex(toks[2]);
            let t = n(3) as u8;
            let (_, _, tz, lz) = hv::group_mask_queries(&g, 1, 0);
            format!(
                "mt={} me={} ms={} mf={} lz={} tz={} cv={}",
                nats(&hv::group_match_tag(&g, t)),
                nats(&hv::group_match_empty(&g)),
                nats(&hv::group_match_empty_or_deleted(&g)),
                nats(&hv::group_match_full(&g)),
                lz,
                tz,
                hex(&hv::group_convert(&g))
            )
        }
        ("fn", "tlnew") => tl_new(toks[2]),
        ("fn", "serdezst") => serde_zst(toks[2], toks[3]),
        ("fn", "static_empty") => hex(&hv::static_empty()),
        ("fnrange", "c2b") => {
            // breakpoints of cap ↦ buckets over [lo, hi)
            let (lo, hi, size) = (n(2), n(3), n(4));
            let mut out = String::new();
            let mut last: Option<Option<usize>> = None;
            for cap in lo..hi {
                let v = hv::capacity_to_buckets(cap, size, w);
                if last != Some(v) {
                    write!(out, "{}:{},", cap, opt(v).replace(' ', "")).unwrap();
                    last = Some(v);
                }
            }
            out
        }
        ("fnrange", "bm2c") => {
            // all power-of-two masks up to 2^hi
            let hi = n(2);
            (0..hi).map(|k| hv::bucket_mask_to_capacity((1usize << k) - 1).to_string()).collect::<Vec<_>>().join(",")
        }
        ("fnrange", "capcheck") => {
            // direct oracle: for every cap in [lo,hi): buckets is a power of two whose capacity
            // covers the request and stays below the bucket count
            let (lo, hi, size) = (n(2), n(3), n(4));
            let mut bad = 0usize;
            for cap in lo..hi {
                match hv::capacity_to_buckets(cap, size, w) {
                    None => {}
                    Some(b) => {
                        let c = hv::bucket_mask_to_capacity(b - 1);
                        if !b.is_power_of_two() || c < cap || c >= b {
                            bad += 1;
                        }
                    }
                }
            }
            format!("bad={}", bad)
        }
        _ => format!("bad-fn {}", toks.join(" ")),
    }
}

/// `TableLayout::new::<T>()` for concrete element types: `size align -> size ctrl_align` (the inputs are
/// `size_of`/`align_of` as rustc reports them), with the direct oracle of C17/C02: the control alignment
/// — which is the alignment the allocator is asked for — is at least the element's and the group's.
fn tl_new(ty: &str) -> String {
    #[repr(align(32))]
    #[derive(Clone, Copy)]
    struct Al32(#[allow(dead_code)] u8);
    #[repr(align(64))]
    #[derive(Clone, Copy)]
    struct Al64(#[allow(dead_code)] [u8; 70]);
    #[repr(align(4096))]
    #[derive(Clone, Copy)]
    struct Al4096(#[allow(dead_code)] u8);
    fn one<T>() -> (usize, usize, (usize, usize)) {
        (std::mem::size_of::<T>(), std::mem::align_of::<T>(), hv::table_layout_new::<T>())
    }
    let (size, align, (lsize, ca)) = match ty {
        "unit" => one::<()>(),
        "u8" => one::<u8>(),
        "u16" => one::<u16>(),
        "u8x3" => one::<[u8; 3]>(),
        "u16x5" => one::<[u16; 5]>(),
        "u64" => one::<u64>(),
        "u128" => one::<u128>(),
        "pair" => one::<(u64, [u8; 3])>(),
        "al32" => one::<Al32>(),
        "al64" => one::<Al64>(),
        "al4096" => one::<Al4096>(),
        "big" => one::<[u64; 25]>(),
        _ => return format!("bad-fn tlnew {}", ty),
    };
    let mut out = format!("in={} {} out={} {}", size, align, lsize, ca);
    if ca < align || ca < hv::GROUP_WIDTH || !ca.is_power_of_two() || lsize != size {
        out.push_str(&format!(
            " ORACLE-ARITH(TableLayout::new_for_size_{}_align_{}_gives_size_{}_ctrl_align_{}:_below_the_element_or_group_alignment)",
            size, align, lsize, ca
        ));
    }
    out
}

/// C20 on ZERO-SIZED elements: the real `Deserialize` impls of `HashSet<()>` / `HashMap<(), ()>` fed an
/// empty stream whose size hint claims `hint` entries. Observation: capacity and block size reserved.
fn serde_zst(kind: &str, hint: &str) -> String {
    use serde::de::{self, Deserialize, DeserializeSeed, Deserializer, MapAccess, SeqAccess, Visitor};
    type E = serde::de::value::Error;
    struct Lying(Option<usize>);
    impl<'de> SeqAccess<'de> for Lying {
        type Error = E;
        fn next_element_seed<T: DeserializeSeed<'de>>(&mut self, _seed: T) -> Result<Option<T::Value>, E> {
            Ok(None)
        }
        fn size_hint(&self) -> Option<usize> {
            self.0
        }
    }
    impl<'de> MapAccess<'de> for Lying {
        type Error = E;
        fn next_key_seed<K: DeserializeSeed<'de>>(&mut self, _seed: K) -> Result<Option<K::Value>, E> {
            Ok(None)
        }
        fn next_value_seed<V: DeserializeSeed<'de>>(&mut self, _seed: V) -> Result<V::Value, E> {
            Err(de::Error::custom("no value"))
        }
        fn size_hint(&self) -> Option<usize> {
            self.0
        }
    }
    struct D(Option<usize>, bool);
    impl<'de> Deserializer<'de> for D {
        type Error = E;
        fn deserialize_any<V: Visitor<'de>>(self, v: V) -> Result<V::Value, E> {
            if self.1 {
                v.visit_map(Lying(self.0))
            } else {
                v.visit_seq(Lying(self.0))
            }
        }
        serde::forward_to_deserialize_any! {
            bool i8 i16 i32 i64 i128 u8 u16 u32 u64 u128 f32 f64 char str string bytes byte_buf option unit
            unit_struct newtype_struct seq tuple tuple_struct map struct enum identifier ignored_any
        }
    }
    let h: Option<usize> = if hint == "-" { None } else { Some(hint.parse::<u128>().unwrap() as usize) };
    type BH = std::hash::BuildHasherDefault<std::collections::hash_map::DefaultHasher>;
    let (cap, bytes) = if kind == "map" {
        let m = hashbrown::HashMap::<(), (), BH>::deserialize(D(h, true)).expect("deserialize");
        (m.capacity(), m.allocation_size())
    } else {
        let m = hashbrown::HashSet::<(), BH>::deserialize(D(h, false)).expect("deserialize");
        (m.capacity(), m.allocation_size())
    };
    let mut out = format!("cap={} bytes={}", cap, bytes);
    // direct oracle (C20): whatever the stream claims, at most 8192 buckets are reserved up front
    if cap > 7168 || bytes > 8192 + 64 {
        out.push_str(&format!(
            " ORACLE-CAP(a_claimed_length_of_{}_reserved_capacity_{}_/_{}_bytes_before_any_element_arrived)",
            hint, cap, bytes
        ));
    }
    out
}

const VALID: [u8; 7] = [0xFF, 0x80, 0x00, 0x01, 0x2a, 0x2b, 0x7f];

/// Only the serde lines (tie of C20 for zero-sized element types).
pub fn generate_serde() -> Vec<String> {
    let mut v = Vec::new();
    for kind in ["set", "map"] {
        for h in ["-", "0", "1", "2", "3", "4", "5", "7", "8", "14", "15", "28", "29", "56", "57", "4095", "4096", "4097", "7168", "7169", "8192", "65536", "1048576", "16777216"] {
            v.push(format!("fn serdezst {} {}", kind, h));
        }
    }
    v
}

/// Boundary-dense pure-function inputs. Returns op lines.
pub fn generate(seed: u64, thorough: bool) -> Vec<String> {
    let mut rng = Rng::new(seed);
    let mut v: Vec<String> = Vec::new();
    let w = hv::GROUP_WIDTH;
    v.push("fn static_empty".into());
    for b in 0..256 {
        v.push(format!("fn tagbits {}", b));
    }
    // capacity: exhaustive small range by breakpoints, for the sizes that matter to min-capacity
    let hi: usize = if thorough { 1 << 26 } else { 1 << 22 };
    for size in [0usize, 1, 2, 3, 4, 8, 24, 200] {
        v.push(format!("fnrange c2b 1 {} {}", hi, size));
        v.push(format!("fnrange capcheck 1 {} {}", hi, size));
    }
    v.push("fnrange bm2c 64".into());
    for ty in ["unit", "u8", "u16", "u8x3", "u16x5", "u64", "u128", "pair", "al32", "al64", "al4096", "big"] {
        v.push(format!("fn tlnew {}", ty));
    }
    // serde on zero-sized elements: claimed lengths around `cautious`'s cap and far above it
    for kind in ["set", "map"] {
        for h in ["-", "0", "1", "3", "4", "7", "8", "28", "29", "4095", "4096", "4097", "7168", "7169", "65536", "1048576", "16777216"] {
            v.push(format!("fn serdezst {} {}", kind, h));
        }
    }
    // around every 2^k and 7/8·2^k up to usize::MAX
    let delta: i128 = if thorough { 4096 } else { 64 };
    for k in 3..=64u32 {
        for base in [1i128 << k, (1i128 << k) / 8 * 7, ((1i128 << k) / 8 * 7) + 1] {
            for d in [-delta, -2, -1, 0, 1, 2, delta] {
                let c = base + d;
                if c >= 1 && c <= u64::MAX as i128 {
                    v.push(format!("fn c2b {} {}", c, rng.pick(&[0usize, 1, 8, 24])));
                }
            }
            let lo = base - delta;
            if lo >= 1 && base + delta <= u64::MAX as i128 {
                v.push(format!("fnrange c2b {} {} 8", lo, base + delta));
            }
        }
    }
    for c in [u64::MAX, u64::MAX - 1, u64::MAX / 8, u64::MAX / 8 + 1, u64::MAX / 8 - 1, i64::MAX as u64, i64::MAX as u64 + 1] {
        v.push(format!("fn c2b {} 8", c));
    }
    // layouts
    let mut sizes: Vec<u128> = (0..=64).collect();
    sizes.extend([200, 4096, 1 << 20, (i64::MAX as u128) / 2 - 1, (i64::MAX as u128) / 2, (i64::MAX as u128) / 2 + 1]);
    for &size in &sizes {
        for a in 0..=12u32 {
            let align = 1u128 << a;
            let ctrl_align = std::cmp::max(align, w as u128);
            for k in 0..=62u32 {
                if thorough || k <= 8 || k % 7 == 0 || rng.chance(1, 6) {
                    v.push(format!("fn layout {} {} {}", size, ctrl_align, 1u128 << k));
                }
            }
        }
    }
    // layout boundaries: size*buckets near isize::MAX
    for k in 2..=62u32 {
        let b = 1u128 << k;
        let s = (i64::MAX as u128) / b;
        for d in [0u128, 1, 2] {
            for ss in [s.saturating_sub(d), s + d] {
                v.push(format!("fn layout {} {} {}", ss, w, b));
                v.push(format!("fn layout {} 64 {}", ss, b));
            }
        }
    }
    // probe sequences
    let kmax = if thorough { 26 } else { 18 };
    for k in 0..=kmax {
        let mask = (1u64 << k) - 1;
        let steps = std::cmp::min(((mask + 1) as usize / w).max(1) + 2, 70);
        for _ in 0..(if thorough { 12 } else { 4 }) {
            v.push(format!("fn probe {} {} {}", rng.next(), mask, steps));
        }
        for start in 0..std::cmp::min(mask + 1, if thorough { 64 } else { 8 }) {
            v.push(format!("fn probe {} {} {}", start, mask, steps));
        }
    }
    for _ in 0..200 {
        let h = rng.next();
        v.push(format!("fn tag {}", h));
        let k = rng.below(20);
        let mask = (1u64 << k) - 1;
        v.push(format!("fn samegroup {} {} {} {}", rng.below(mask + 1), rng.below(mask + 1), h, mask));
    }
    for h in [0u64, u64::MAX, 1 << 57, (1 << 57) - 1, 0x7f << 57, 1 << 63] {
        v.push(format!("fn tag {}", h));
    }
    // groups: all 2-byte windows of valid control bytes at every lane over several backgrounds
    let backgrounds: [u8; 4] = [0xFF, 0x80, 0x2a, 0x00];
    let mut dom: Vec<u8> = vec![0xFF, 0x80];
    dom.extend(0..128u8);
    for &bg in &backgrounds {
        for lane in 0..w {
            let step = if thorough { 1 } else { 5 };
            let mut i = (lane * 3) % step.max(1);
            while i < dom.len() {
                let mut j = (lane * 7 + i) % step.max(1);
                while j < dom.len() {
                    let mut g = vec![bg; w];
                    g[lane] = dom[i];
                    g[(lane + 1) % w] = dom[j];
                    let t = if rng.chance(1, 2) { dom[i] & 0x7f } else { dom[j] & 0x7f };
                    v.push(format!("fn grp {} {}", hex(&g), t));
                    j += step;
                }
                i += step;
            }
        }
    }
    // random groups biased to few distinct valid values (collisions, lsb twins)
    let nrand = if thorough { 2_000_000 } else { 60_000 };
    for i in 0..nrand {
        let g: Vec<u8> = (0..w)
            .map(|_| {
                if rng.chance(1, 3) {
                    *rng.pick(&VALID)
                } else if rng.chance(1, 2) {
                    (rng.below(128)) as u8
                } else {
                    *rng.pick(&[0xFFu8, 0x80])
                }
            })
            .collect();
        let t = if rng.chance(2, 3) { g[(mix3(seed, i as u64, 3) % w as u64) as usize] & 0x7f } else { rng.below(128) as u8 };
        v.push(format!("fn grp {} {}", hex(&g), t));
    }
    v
}
