//! set_runner for the line protocol (extension point).
use crate::exec::Runner;

pub fn make(drop: bool, lay: &str) -> Box<dyn Runner> {
    panic!("no set_runner for drop={} lay={}", drop, lay)
}
