//! `hashbrown::HashSet<K, IdBuild, TapeAlloc>` for the line protocol (`coll=set`): two sets `a` / `b`,
//! the full single-set API, the lazy set-algebra iterators, predicates, operator and assigning
//! operator forms — with direct oracles (structural invariant, reference sets, ownership ledger).
use crate::elems::*;
use crate::exec::{fmt_state, fmt_tre, inv_oracle, lawful, loud, observe_iter, panic_class, quiet, Runner};
use crate::tape::{self, TapeAlloc};
use hashbrown::hash_set::Entry;
use hashbrown::verif::Dump;
use hashbrown::HashSet;
use std::collections::{BTreeMap, BTreeSet, HashMap as StdMap};
use std::panic::{catch_unwind, AssertUnwindSafe};

pub type S<K> = HashSet<K, IdBuild, TapeAlloc>;

/// Reference set: key ↦ kid of the object stored for it.
pub type RefSet = BTreeMap<u64, u64>;

/// A value owned by the harness (returned by the collection): its destructor is not logged, also
/// when it runs during unwinding.
struct Held<T>(Option<T>);
impl<T> Held<T> {
    fn new(x: T) -> Self {
        Held(Some(x))
    }
    fn get(&self) -> &T {
        self.0.as_ref().unwrap()
    }
    fn get_mut(&mut self) -> &mut T {
        self.0.as_mut().unwrap()
    }
}
impl<T> Drop for Held<T> {
    fn drop(&mut self) {
        let was = tape::with(|t| std::mem::replace(&mut t.logging, false));
        self.0 = None;
        tape::with(|t| t.logging = was);
    }
}

fn new_set<K: KeyT>() -> S<K> {
    HashSet::with_hasher_in(IdBuild, TapeAlloc)
}

fn fmt_e<K: KeyT>(k: &K) -> String {
    format!("{}.{}.0.0", k.k(), k.id())
}
fn fmt_es<K: KeyT>(v: &[K]) -> String {
    v.iter().map(fmt_e).collect::<Vec<_>>().join(",")
}

fn set_contents<K: KeyT>(m: &S<K>) -> RefSet {
    let d = m.verif_dump();
    let mut out = RefSet::new();
    if !d.is_singleton {
        for i in 0..=d.bucket_mask {
            if let Some(k) = m.verif_bucket(i) {
                out.insert(k.k(), k.id());
            }
        }
    }
    out
}

/// All `(key, kid)` pairs physically stored (duplicates of a key are possible only in unlawful environments).
fn set_kids<K: KeyT>(m: &S<K>) -> Vec<u64> {
    let d = m.verif_dump();
    let mut out = Vec::new();
    if !d.is_singleton {
        for i in 0..=d.bucket_mask {
            if let Some(k) = m.verif_bucket(i) {
                out.push(k.id());
            }
        }
    }
    out
}

fn set_state<K: KeyT>(m: &S<K>) -> String {
    let d = m.verif_dump();
    let mut slots = Vec::new();
    if !d.is_singleton {
        for i in 0..=d.bucket_mask {
            if let Some(k) = m.verif_bucket(i) {
                slots.push((i, fmt_e(k)));
            }
        }
    }
    format!("{} len={} cap={} asz={}", fmt_state(&d, &slots), m.len(), m.capacity(), m.allocation_size())
}

fn set_addr_index<K: KeyT>(m: &S<K>) -> StdMap<usize, usize> {
    let d = m.verif_dump();
    let mut ka = StdMap::new();
    if !d.is_singleton {
        for i in 0..=d.bucket_mask {
            if let Some(k) = m.verif_bucket(i) {
                ka.insert(k as *const K as usize, i);
            }
        }
    }
    ka
}

/// Drive a lazy set-algebra iterator with `next`: `sh=<lo>..<hi|inf> y=<k.kid,…>` in yield order.
/// `fold` of a clone taken after `p` calls of `next` must visit exactly what further `next` calls return
/// (the set-algebra iterators override `fold`). Runs only under a lawful, panic-free environment and restores
/// the callback counters, so the extra passes are invisible to the model.
fn fold_agrees<'a, K: KeyT + 'a, I: Iterator<Item = &'a K> + Clone>(it: &I) -> bool {
    let quiet_env = tape::with(|t| {
        t.p.hash_mix.is_none() && t.p.eq_mix.is_none() && t.p.hpanic.is_none() && t.p.epanic.is_none()
    });
    if !quiet_env {
        return true;
    }
    let (hc, ec) = tape::with(|t| (t.hc, t.ec));
    let by_next: Vec<(u64, u64)> = it.clone().map(|x| (x.k(), x.id())).collect::<Vec<_>>();
    let mut ok = true;
    for p in [0usize, 1, by_next.len() / 2, by_next.len()] {
        if p > by_next.len() {
            continue;
        }
        let mut c = it.clone();
        for _ in 0..p {
            c.next();
        }
        let folded = c.fold(Vec::new(), |mut v, x| {
            v.push((x.k(), x.id()));
            v
        });
        if folded[..] != by_next[p..] {
            ok = false;
        }
    }
    tape::with(|t| {
        t.hc = hc;
        t.ec = ec;
    });
    ok
}

fn lazy<'a, K: KeyT + 'a, I: Iterator<Item = &'a K> + Clone>(mut it: I) -> String {
    let fold_ok = fold_agrees(&it);
    let (lo, hi) = it.size_hint();
    let mut ys = Vec::new();
    while let Some(x) = it.next() {
        ys.push(format!("{}.{}", x.k(), x.id()));
    }
    let mut flags = String::new();
    if it.next().is_some() || it.next().is_some() {
        flags.push_str(" NOT-FUSED");
    }
    if it.size_hint().1 != Some(0) {
        flags.push_str(" HINT-AFTER-END");
    }
    if !fold_ok {
        flags.push_str(" FOLD-MISMATCH");
    }
    format!("sh={}..{} y={}{}", lo, hi.map_or("inf".to_string(), |h| h.to_string()), ys.join(","), flags)
}

/// Result of an operator form: geometry and elements sorted by `(k, kid)`; dropped quietly afterwards.
fn opform<K: KeyT>(res: Held<S<K>>) -> String {
    let s = res.get();
    let d = s.verif_dump();
    let mut es: Vec<(u64, u64)> = s.iter().map(|k| (k.k(), k.id())).collect();
    es.sort();
    let mut out = format!(
        "m={} g={} y={}",
        d.bucket_mask,
        d.growth_left,
        es.iter().map(|(k, id)| format!("{}.{}", k, id)).collect::<Vec<_>>().join(",")
    );
    if let Some(why) = inv_oracle(&d) {
        out.push_str(&format!(" ORACLE-INV(result:{})", why.replace(' ', "_")));
    }
    if s.len() != es.len() {
        out.push_str(" ORACLE-REF(result_len_differs_from_its_iteration)");
    }
    out
}

fn parse_pairs(list: &str) -> Vec<(u64, u64)> {
    if list.is_empty() {
        return Vec::new();
    }
    list.split(',')
        .map(|e| {
            let mut p = e.split('.');
            (p.next().unwrap().parse().unwrap(), p.next().unwrap().parse().unwrap())
        })
        .collect()
}

fn field<'a>(ret: &'a str, key: &str) -> &'a str {
    for t in ret.split(' ') {
        if let Some(v) = t.strip_prefix(key) {
            return v;
        }
    }
    ""
}

pub struct SetRunner<K: KeyT> {
    a: Option<S<K>>,
    b: Option<S<K>>,
    ra: RefSet,
    rb: RefSet,
    /// predicate decisions of the last retain / extract_if: (key, answer)
    preds: std::rc::Rc<std::cell::RefCell<Vec<(u64, bool)>>>,
    live: BTreeSet<u64>,
    dead: BTreeSet<u64>,
    leak_ok: bool,
    /// `Clone` calls accounted for so far
    cc_seen: u64,
}

/// kid of the object an op moves into the call: `(kid, certainly_created)`.
fn set_moved_in(name: &str, a: &[&str]) -> Option<(u64, bool)> {
    let p = |i: usize| a[i].parse::<u64>().unwrap();
    match (name, a.len()) {
        ("insert", 2) | ("insert", 4) | ("replace", 2) | ("get_or_insert", 2) | ("entry_insert", 2)
        | ("entry_or_insert", 2) | ("entry_remove", 2) => Some((p(1), true)),
        ("get_or_insert_with", 2) => Some((p(1), false)),
        ("get_or_insert_with_bad", 3) => Some((p(2), false)),
        _ => None,
    }
}

impl<K: KeyT> SetRunner<K> {
    pub fn new() -> Self {
        SetRunner {
            a: Some(new_set()),
            b: Some(new_set()),
            ra: RefSet::new(),
            rb: RefSet::new(),
            preds: Default::default(),
            live: Default::default(),
            dead: Default::default(),
            leak_ok: false,
            cc_seen: 0,
        }
    }
    fn get(&self, tgt: &str) -> &S<K> {
        if tgt == "a" {
            self.a.as_ref().unwrap()
        } else {
            self.b.as_ref().unwrap()
        }
    }
    fn other_name(tgt: &str) -> &'static str {
        if tgt == "a" {
            "b"
        } else {
            "a"
        }
    }

    fn run(&mut self, tgt: &str, name: &str, a: &[&str]) -> String {
        let n = |i: usize| -> u64 { a[i].parse().unwrap() };
        let rec = self.preds.clone();
        rec.borrow_mut().clear();
        let (m, other) = if tgt == "a" {
            (self.a.as_mut().unwrap(), self.b.as_mut().unwrap())
        } else {
            (self.b.as_mut().unwrap(), self.a.as_mut().unwrap())
        };
        let pred = move |k: &K| {
            let (ans, _cannot_mutate) = tape::pred_of();
            rec.borrow_mut().push((k.k(), ans));
            ans
        };
        // the SAME object on both sides is a legitimate pair of sets: read-only binary calls only
        if let Some(base) = name.strip_prefix("self_") {
            let s: &S<K> = &*m;
            return match base {
                "union" => lazy(s.union(s)),
                "intersection" => lazy(s.intersection(s)),
                "difference" => lazy(s.difference(s)),
                "symmetric_difference" => lazy(s.symmetric_difference(s)),
                "is_subset" => s.is_subset(s).to_string(),
                "is_superset" => s.is_superset(s).to_string(),
                "is_disjoint" => s.is_disjoint(s).to_string(),
                "eq" => (*s == *s).to_string(),
                "bitor" => opform(Held::new(s | s)),
                "bitand" => opform(Held::new(s & s)),
                "bitxor" => opform(Held::new(s ^ s)),
                "sub" => opform(Held::new(s - s)),
                _ => format!("bad-op {}", name),
            };
        }
        match (name, a.len()) {
            ("insert", 2) | ("insert", 4) => m.insert(K::new(n(0), n(1))).to_string(),
            ("contains", 1) => m.contains(&Q(n(0))).to_string(),
            ("get", 1) => m.get(&Q(n(0))).map_or("-".into(), fmt_e),
            ("remove", 1) => m.remove(&Q(n(0))).to_string(),
            ("take", 1) => {
                let r = Held::new(m.take(&Q(n(0))));
                r.get().as_ref().map_or("-".into(), fmt_e)
            }
            ("replace", 2) => {
                let r = Held::new(m.replace(K::new(n(0), n(1))));
                r.get().as_ref().map_or("-".into(), fmt_e)
            }
            ("get_or_insert", 2) => fmt_e(m.get_or_insert(K::new(n(0), n(1)))),
            ("get_or_insert_with", 2) => {
                let kid2 = n(1);
                fmt_e(m.get_or_insert_with(&Q(n(0)), |q| K::new(q.0, kid2)))
            }
            ("get_or_insert_with_bad", 3) => {
                let (k2, kid2) = (n(1), n(2));
                fmt_e(m.get_or_insert_with(&Q(n(0)), |_| K::new(k2, kid2)))
            }
            ("entry_insert", 2) => {
                let e = m.entry(K::new(n(0), n(1))).insert();
                fmt_e(e.get())
            }
            ("entry_or_insert", 2) => {
                m.entry(K::new(n(0), n(1))).or_insert();
                "()".into()
            }
            ("entry_remove", 2) => match m.entry(K::new(n(0), n(1))) {
                Entry::Occupied(o) => {
                    let r = Held::new(o.remove());
                    fmt_e(r.get())
                }
                Entry::Vacant(v) => {
                    drop(v);
                    "-".into()
                }
            },
            ("clear", 0) => {
                m.clear();
                "()".into()
            }
            ("reserve", 1) => {
                m.reserve(n(0) as usize);
                "()".into()
            }
            ("try_reserve", 1) => fmt_tre(m.try_reserve(n(0) as usize)),
            ("shrink_to", 1) => {
                m.shrink_to(n(0) as usize);
                "()".into()
            }
            ("shrink_to_fit", 0) => {
                m.shrink_to_fit();
                "()".into()
            }
            ("retain", 0) => {
                m.retain(pred);
                "()".into()
            }
            ("extract_if", 1) => {
                let mut out = Held::new(Vec::new());
                {
                    let mut e = m.extract_if(pred);
                    let mut ended = false;
                    for _ in 0..n(0) {
                        match e.next() {
                            Some(x) => out.get_mut().push(x),
                            None => {
                                ended = true;
                                break;
                            }
                        }
                    }
                    // polled again after its end it stays at the end: no element, no further predicate call
                    // (a predicate call would show in the callback counters; an element is flagged here)
                    if ended && (e.next().is_some() || e.next().is_some()) {
                        crate::exec::own_flag("ORACLE-REF(extract_if_yielded_an_element_after_returning_None)");
                    }
                }
                fmt_es(out.get())
            }
            ("drain", 2) => {
                let mut out = Held::new(Vec::new());
                {
                    let total = m.len();
                    let mut d = m.drain();
                    for _ in 0..n(0) {
                        match crate::exec::next_exact(&mut d, total - out.get().len()) {
                            Some(x) => out.get_mut().push(x),
                            None => break,
                        }
                    }
                    crate::exec::check_exact(&d, total - out.get().len());
                    if n(1) == 1 {
                        std::mem::forget(d);
                    }
                }
                fmt_es(out.get())
            }
            // the closure of get_or_insert_with panics (it only runs for an absent value)
            ("get_or_insert_with_panic", 1) => {
                let r = m.get_or_insert_with(&Q(n(0)), |_q| -> K { std::panic::panic_any(tape::TapePanic("pred")) });
                let _ = r;
                "present".into()
            }
            ("drain_fold", 1) | ("into_iter_fold", 1) => {
                let mut out = Held::new(Vec::new());
                let stop = n(0) as usize;
                let r = std::panic::catch_unwind(std::panic::AssertUnwindSafe(|| {
                    let eat = |x: K| {
                        out.get_mut().push(x);
                        if out.get().len() == stop {
                            std::panic::panic_any(tape::TapePanic("consumer"));
                        }
                    };
                    if name == "drain_fold" {
                        m.drain().for_each(eat);
                    } else {
                        let old = std::mem::replace(m, new_set());
                        old.into_iter().for_each(eat);
                    }
                }));
                if let Err(p) = r {
                    match p.downcast_ref::<tape::TapePanic>() {
                        Some(tp) if tp.0 == "consumer" => {}
                        _ => std::panic::resume_unwind(p),
                    }
                }
                fmt_es(out.get())
            }
            ("into_iter", 1) => {
                let old = std::mem::replace(m, new_set());
                let mut out = Held::new(Vec::new());
                {
                    let total = old.len();
                    let mut it = old.into_iter();
                    for _ in 0..n(0) {
                        match crate::exec::next_exact(&mut it, total - out.get().len()) {
                            Some(x) => out.get_mut().push(x),
                            None => break,
                        }
                    }
                    crate::exec::check_exact(&it, total - out.get().len());
                }
                fmt_es(out.get())
            }
            ("iter", 3) => {
                let ka = set_addr_index(m);
                let bad = usize::MAX;
                crate::exec::observe_iter_nth(m.iter(), n(0) as usize, |k| *ka.get(&(*k as *const K as usize)).unwrap_or(&bad))
            }
            ("iter", 1) | ("iter", 2) => {
                let ka = set_addr_index(m);
                let bad = usize::MAX;
                observe_iter(m.iter(), n(0) as usize, |k| *ka.get(&(*k as *const K as usize)).unwrap_or(&bad))
            }
            ("with_capacity", 1) => {
                let old = std::mem::replace(m, new_set());
                drop(old);
                *m = HashSet::with_capacity_and_hasher_in(n(0) as usize, IdBuild, TapeAlloc);
                "()".into()
            }
            ("clone_to_other", 0) => {
                let old = std::mem::replace(other, new_set());
                drop(old);
                *other = m.clone();
                "()".into()
            }
            ("clone_from", 0) => {
                m.clone_from(other);
                "()".into()
            }
            ("nop", 0) => "()".into(),
            // lazy set algebra, right operand = the other set
            ("union", 0) => lazy(m.union(other)),
            ("intersection", 0) => lazy(m.intersection(other)),
            ("difference", 0) => lazy(m.difference(other)),
            ("symmetric_difference", 0) => lazy(m.symmetric_difference(other)),
            ("is_subset", 0) => m.is_subset(other).to_string(),
            ("is_superset", 0) => m.is_superset(other).to_string(),
            ("is_disjoint", 0) => m.is_disjoint(other).to_string(),
            ("eq", 0) => (*m == *other).to_string(),
            // operator forms: a new set (default hasher and allocator), printed and dropped
            ("bitor", 0) => opform(Held::new(&*m | &*other)),
            ("bitand", 0) => opform(Held::new(&*m & &*other)),
            ("bitxor", 0) => opform(Held::new(&*m ^ &*other)),
            ("sub", 0) => opform(Held::new(&*m - &*other)),
            // assigning operator forms
            ("bitor_assign", 0) => {
                *m |= &*other;
                "()".into()
            }
            ("bitand_assign", 0) => {
                *m &= &*other;
                "()".into()
            }
            ("bitxor_assign", 0) => {
                *m ^= &*other;
                "()".into()
            }
            ("sub_assign", 0) => {
                *m -= &*other;
                "()".into()
            }
            _ => format!("bad-op {}", name),
        }
    }

    /// Direct oracle: what mathematical sets (plus "which object is stored") say this op must
    /// return and leave behind. Only for lawful environments.
    fn ref_step(&mut self, tgt: &str, name: &str, a: &[&str], ret: &str) -> Option<String> {
        let n = |i: usize| -> u64 { a[i].parse().unwrap() };
        let fe = |k: u64, kid: u64| format!("{}.{}.0.0", k, kid);
        let preds = self.preds.borrow().clone();
        let actual = set_contents(self.get(tgt));
        let other_actual = set_contents(self.get(Self::other_name(tgt)));
        let (r, o) = if tgt == "a" { (&mut self.ra, &mut self.rb) } else { (&mut self.rb, &mut self.ra) };
        let mut expect: Option<String> = None;
        let keys = |m: &RefSet| -> BTreeSet<u64> { m.keys().copied().collect() };
        let self_pair = name.starts_with("self_");
        let name = name.strip_prefix("self_").unwrap_or(name);
        let other_ref = o.clone();
        let mut self_copy = r.clone();
        let (rk, ok) = (keys(r), if self_pair { keys(r) } else { keys(o) });
        let o: &mut RefSet = if self_pair { &mut self_copy } else { o };
        let math = |op: &str| -> BTreeSet<u64> {
            match op {
                "union" | "bitor" | "bitor_assign" => rk.union(&ok).copied().collect(),
                "intersection" | "bitand" | "bitand_assign" => rk.intersection(&ok).copied().collect(),
                "difference" | "sub" | "sub_assign" => rk.difference(&ok).copied().collect(),
                _ => rk.symmetric_difference(&ok).copied().collect(),
            }
        };
        let mut other_changes = false;
        match (name, a.len()) {
            ("insert", 2) | ("insert", 4) => {
                // a present value keeps the OLD object
                expect = Some((!r.contains_key(&n(0))).to_string());
                r.entry(n(0)).or_insert(n(1));
            }
            ("contains", 1) => expect = Some(r.contains_key(&n(0)).to_string()),
            ("get", 1) => expect = Some(r.get(&n(0)).map_or("-".into(), |&kid| fe(n(0), kid))),
            ("remove", 1) => expect = Some(r.remove(&n(0)).is_some().to_string()),
            ("take", 1) | ("entry_remove", 2) => {
                expect = Some(r.remove(&n(0)).map_or("-".into(), |kid| fe(n(0), kid)))
            }
            ("replace", 2) => {
                // the NEW object is stored, the old one returned
                expect = Some(r.insert(n(0), n(1)).map_or("-".into(), |kid| fe(n(0), kid)));
            }
            ("get_or_insert_with_panic", 1) => {
                if !r.contains_key(&n(0)) {
                    return Some("get_or_insert_with returned although the value is absent and its closure panics".into());
                }
                expect = Some("present".into());
            }
            ("get_or_insert", 2) | ("entry_insert", 2) | ("get_or_insert_with", 2) => {
                let kid = *r.entry(n(0)).or_insert(n(1));
                expect = Some(fe(n(0), kid));
            }
            ("get_or_insert_with_bad", 3) => match r.get(&n(0)) {
                Some(&kid) => expect = Some(fe(n(0), kid)),
                None if n(0) == n(1) => {
                    r.insert(n(0), n(2));
                    expect = Some(fe(n(0), n(2)));
                }
                None => return Some("get_or_insert_with accepted a non-equivalent value".into()),
            },
            ("entry_or_insert", 2) => {
                r.entry(n(0)).or_insert(n(1));
                expect = Some("()".into());
            }
            ("clear", 0) | ("with_capacity", 1) => {
                r.clear();
                expect = Some("()".into());
            }
            ("reserve", 1) | ("shrink_to", 1) | ("shrink_to_fit", 0) | ("nop", 0) => expect = Some("()".into()),
            ("try_reserve", 1) => {
                let refusing = tape::with(|t| t.p.afail.is_some() || t.p.afrom.is_some());
                if n(0) < (1 << 40) && !refusing {
                    expect = Some("ok".into())
                }
            }
            ("retain", 0) | ("extract_if", 1) => {
                let mut yielded = Vec::new();
                let mut seen = BTreeSet::new();
                for (k, ans) in &preds {
                    if !seen.insert(*k) {
                        return Some(format!("{} visited key {} twice", name, k));
                    }
                    if !r.contains_key(k) {
                        return Some(format!("{} visited absent key {}", name, k));
                    }
                    let out = if name == "retain" { !*ans } else { *ans };
                    if out {
                        let kid = r.remove(k).unwrap();
                        yielded.push(fe(*k, kid));
                    }
                }
                if name == "retain" {
                    if seen.len() != rk.len() {
                        return Some("retain: predicate calls do not cover the set once".into());
                    }
                    expect = Some("()".into());
                } else {
                    if yielded.len() > n(0) as usize || (yielded.len() < n(0) as usize && seen.len() != rk.len()) {
                        return Some("extract_if stopped early or ran too far".into());
                    }
                    expect = Some(yielded.join(","));
                }
            }
            ("drain", 2) | ("into_iter", 1) | ("drain_fold", 1) | ("into_iter_fold", 1) => {
                let got: Vec<&str> = if ret.is_empty() { vec![] } else { ret.split(',').collect() };
                let want = if name.ends_with("_fold") && n(0) == 0 { r.len() } else { std::cmp::min(n(0) as usize, r.len()) };
                if got.len() != want {
                    return Some(format!("{} yielded {} elements, expected {}", name, got.len(), want));
                }
                let mut seen = BTreeSet::new();
                for g in &got {
                    let k: u64 = g.split('.').next().unwrap().parse().unwrap();
                    match r.get(&k) {
                        Some(&kid) if fe(k, kid) == *g && seen.insert(k) => {}
                        _ => return Some(format!("{} yielded {} which is not a stored element (or twice)", name, g)),
                    }
                }
                r.clear();
            }
            // `nth` variant: the prefix only (exhaustion is judged by ORACLE-ITER in the observation itself)
            ("iter", 3) => {}
            ("iter", _) => {
                // every bucket index once, prefix ++ fold = prefix ++ rest = all full buckets ascending
                let list = |key: &str| -> Vec<usize> {
                    let v = field(ret, key);
                    if v.is_empty() { vec![] } else { v.split(',').map(|x| x.parse().unwrap()).collect() }
                };
                let (pre, fold, rest) = (list("pre="), list("fold="), list("rest="));
                let mut all = pre.clone();
                all.extend(&fold);
                if fold != rest || all.len() != r.len() || all.windows(2).any(|w| w[0] >= w[1]) {
                    return Some("iter does not visit every element exactly once in bucket order".into());
                }
            }
            ("clone_to_other", 0) => {
                other_changes = true;
                if keys(&other_actual) != rk {
                    return Some("clone differs from source".into());
                }
                if other_actual.values().any(|&kid| kid < 1_000_000) {
                    return Some("clone shares an object identity with its source".into());
                }
                *o = other_actual.clone();
                expect = Some("()".into());
            }
            ("clone_from", 0) => {
                if keys(&actual) != ok {
                    return Some("clone_from result differs from source".into());
                }
                if actual.values().any(|&kid| kid < 1_000_000) {
                    return Some("clone_from shares an object identity with its source".into());
                }
                *r = actual.clone();
                expect = Some("()".into());
            }
            ("union", 0) | ("intersection", 0) | ("difference", 0) | ("symmetric_difference", 0) => {
                let ys = parse_pairs(field(ret, "y="));
                let mut seen = BTreeSet::new();
                for (k, kid) in &ys {
                    if !seen.insert(*k) {
                        return Some(format!("{} yielded key {} twice", name, k));
                    }
                    // a yielded reference points at an object stored in one of the operands
                    let from_self = r.get(k) == Some(kid);
                    let from_other = o.get(k) == Some(kid);
                    let ok_src = match name {
                        "difference" => from_self,
                        _ => from_self || from_other,
                    };
                    if !ok_src {
                        return Some(format!("{} yielded {}.{} which is stored in neither operand", name, k, kid));
                    }
                }
                let want = math(name);
                if seen != want {
                    return Some(format!("{} yielded keys {:?}, the mathematical result is {:?}", name, seen, want));
                }
                let sh = field(ret, "sh=");
                let (lo, hi) = sh.split_once("..").unwrap();
                let lo: usize = lo.parse().unwrap();
                if lo > ys.len() || (hi != "inf" && hi.parse::<usize>().unwrap() < ys.len()) {
                    return Some(format!("{} size_hint {} excludes the actual count {}", name, sh, ys.len()));
                }
                if ret.contains("NOT-FUSED") || ret.contains("HINT-AFTER-END") {
                    return Some(format!("{} iterator misbehaves after its end", name));
                }
            }
            ("is_subset", 0) => expect = Some(rk.is_subset(&ok).to_string()),
            ("is_superset", 0) => expect = Some(rk.is_superset(&ok).to_string()),
            ("is_disjoint", 0) => expect = Some(rk.is_disjoint(&ok).to_string()),
            ("eq", 0) => expect = Some((rk == ok).to_string()),
            ("bitor", 0) | ("bitand", 0) | ("bitxor", 0) | ("sub", 0) => {
                let ys = parse_pairs(field(ret, "y="));
                let mut seen = BTreeSet::new();
                for (k, kid) in &ys {
                    if !seen.insert(*k) {
                        return Some(format!("{} result holds key {} twice", name, k));
                    }
                    if *kid < 1_000_000 {
                        return Some(format!("{} result shares object {} with an operand", name, kid));
                    }
                }
                let want = math(name);
                if seen != want {
                    return Some(format!("{} produced keys {:?}, the mathematical result is {:?}", name, seen, want));
                }
            }
            ("bitor_assign", 0) | ("bitand_assign", 0) | ("bitxor_assign", 0) | ("sub_assign", 0) => {
                let want = math(name);
                if keys(&actual) != want {
                    return Some(format!(
                        "{} left keys {:?}, the mathematical result is {:?}",
                        name,
                        keys(&actual),
                        want
                    ));
                }
                for (k, kid) in &actual {
                    match r.get(k) {
                        Some(old) if old != kid => {
                            return Some(format!("{} exchanged the object stored for key {}", name, k))
                        }
                        None if *kid < 1_000_000 => {
                            return Some(format!("{} stored object {} which is not a fresh clone", name, kid))
                        }
                        _ => {}
                    }
                }
                *r = actual.clone();
                expect = Some("()".into());
            }
            _ => return Some(format!("no reference semantics for {}", name)),
        }
        if let Some(e) = expect {
            if e != ret {
                return Some(format!("{} returned {} but the reference set says {}", name, ret, e));
            }
        }
        if *r != actual {
            let missing: Vec<_> = r.keys().filter(|k| !actual.contains_key(k)).collect();
            let extra: Vec<_> = actual.keys().filter(|k| !r.contains_key(k)).collect();
            return Some(format!(
                "contents differ from the reference set after {} (missing keys {:?}, extra keys {:?}, or the stored object changed)",
                name, missing, extra
            ));
        }
        if self_pair && other_ref != other_actual {
            return Some(format!("{} (same object on both sides) modified the other set", name));
        }
        if !other_changes && !self_pair && *o != other_actual {
            return Some(format!("{} modified the other set", name));
        }
        None
    }

    /// Ownership oracle: every key object moved into a set is in exactly one of {a set, dropped once
    /// by the collection, handed back to the caller}.
    fn ledger_step(&mut self, name: &str, a: &[&str], events: &[String]) -> Option<String> {
        if !K::DROP || !K::IDS {
            tape::take_returned();
            return None;
        }
        let mut held = BTreeSet::new();
        for m in [self.a.as_ref().unwrap(), self.b.as_ref().unwrap()] {
            for id in set_kids(m) {
                if !held.insert(id) {
                    return Some(format!("object k{} is held twice", id));
                }
            }
        }
        let dropped: Vec<u64> = events
            .iter()
            .filter_map(|e| e.strip_prefix("dk"))
            .map(|s| s.parse().unwrap())
            .collect();
        let returned: Vec<u64> = tape::take_returned()
            .iter()
            .filter_map(|e| e.strip_prefix('k').map(|s| s.parse().unwrap()))
            .collect();
        match set_moved_in(name, a) {
            Some((kid, true)) => {
                self.live.insert(kid);
            }
            // the closure of get_or_insert_with may never have run
            Some((kid, false)) if held.contains(&kid) || dropped.contains(&kid) => {
                self.live.insert(kid);
            }
            _ => {}
        }
        if name == "drain" && a.len() == 2 && a[1] == "1" {
            self.leak_ok = true;
        }
        if tape::with(|t| t.p.dpanic.is_some()) {
            self.leak_ok = true;
        }
        // clones appear with fresh ids
        for &id in &held {
            if id >= 1_000_000 && !self.dead.contains(&id) {
                self.live.insert(id);
            }
        }
        for id in dropped {
            // clones made and destroyed inside one operation are never seen in a collection
            let transient = id >= 1_000_000 && !self.dead.contains(&id);
            if !self.live.remove(&id) && !transient {
                return Some(format!("object k{} dropped twice (or never owned)", id));
            }
            if !self.dead.insert(id) {
                return Some(format!("object k{} dropped twice", id));
            }
        }
        for id in returned {
            // results of operator forms (fresh clones never in `live`) are dropped by the harness too
            if self.live.remove(&id) {
                if !self.dead.insert(id) {
                    return Some(format!("object k{} handed back after it was dropped", id));
                }
            } else if self.dead.contains(&id) {
                return Some(format!("object k{} handed to the caller although the set dropped it (or handed it out before)", id));
            } else if id >= 1_000_000 {
                self.dead.insert(id);
            }
        }
        // every object `Clone` created during this call is stored, was dropped, or was handed back
        let (cc_now, cpanic) = tape::with(|t| (t.cc, t.p.cpanic));
        let cc_from = std::mem::replace(&mut self.cc_seen, cc_now);
        if !self.leak_ok {
            for c in cc_from..cc_now {
                let id = 1_000_000 + 2 * c;
                if cpanic != Some(c) && !held.contains(&id) && !self.dead.contains(&id) {
                    return Some(format!("clone k{} leaked: created by this call, stored nowhere, never dropped", id));
                }
            }
        }
        for id in &held {
            if !self.live.contains(id) {
                return Some(format!("object k{} is in a set but was dropped or returned", id));
            }
        }
        if !self.leak_ok {
            if let Some(id) = self.live.iter().find(|id| !held.contains(*id)) {
                return Some(format!("object k{} leaked: owned by no set, never dropped, never returned", id));
            }
        } else {
            self.live = held;
        }
        None
    }
}

impl<K: KeyT> Runner for SetRunner<K> {
    fn layout(&self) -> (usize, usize, bool, bool) {
        let (size, _) = hashbrown::verif::table_layout_new::<(K, ())>();
        (size, std::mem::align_of::<(K, ())>(), K::DROP, K::IDS)
    }
    fn op(&mut self, tgt: &str, name: &str, args: &[&str]) -> String {
        let cc_before = tape::with(|t| t.cc);
        let clone_src_len = match name {
            "clone_to_other" => self.get(tgt).len(),
            "clone_from" => self.get(if tgt == "a" { "b" } else { "a" }).len(),
            _ => 0,
        };
        let cap_before = {
            let m = self.get(tgt);
            (m.len(), m.capacity(), m.allocation_size())
        };
        loud();
        tape::with(|t| t.events.clear());
        tape::take_returned();
        let mut ret = match catch_unwind(AssertUnwindSafe(|| self.run(tgt, name, args))) {
            Ok(s) => s,
            Err(p) => panic_class(p),
        };
        quiet();
        let own_flags = crate::exec::own_flags_take();
        {
            let m = self.get(tgt);
            let cap_after = (m.len(), m.capacity(), m.allocation_size());
            if let Some(why) = crate::exec::cap_oracle(name, args, &ret, cap_before, cap_after) {
                ret.push_str(&format!(" ORACLE-CAP({})", why.replace([' ', '(', ')'], "_")));
            }
            if let Some(why) = crate::exec::clone_count_oracle(name, &ret, cc_before, clone_src_len) {
                ret.push_str(&format!(" ORACLE-REF({})", why.replace([' ', '(', ')'], "_")));
            }
        }
        let evs = tape::peek_events();
        if let Some(why) = self.ledger_step(name, args, &evs) {
            ret.push_str(&format!(" ORACLE-LEDGER({})", why.replace(' ', "_")));
            self.leak_ok = true;
        }
        let oth = Self::other_name(tgt);
        if let Some(why) = inv_oracle(&self.get(tgt).verif_dump()) {
            ret.push_str(&format!(" ORACLE-INV({})", why.replace(' ', "_")));
        }
        if let Some(why) = inv_oracle(&self.get(oth).verif_dump()) {
            ret.push_str(&format!(" ORACLE-INV(other:{})", why.replace(' ', "_")));
        }
        let mut resync = true;
        if lawful() {
            if !ret.starts_with("panic") {
                resync = false;
                if let Some(why) = self.ref_step(tgt, name, args, &ret.clone()) {
                    ret.push_str(&format!(" ORACLE-REF({})", why.replace(' ', "_")));
                    resync = true;
                }
            } else if ret.starts_with("panic:notequiv") {
                // the only lawful panic: a misbehaving `get_or_insert_with` closure; the set keeps its elements
                resync = false;
                let bad = name == "get_or_insert_with_bad"
                    && args.len() == 3
                    && args[0] != args[1]
                    && !self.get_ref(tgt).contains_key(&args[0].parse().unwrap());
                if !bad {
                    ret.push_str(" ORACLE-REF(spurious_not-equivalent_panic)");
                }
                if set_contents(self.get("a")) != self.ra || set_contents(self.get("b")) != self.rb {
                    ret.push_str(" ORACLE-REF(set_changed_by_a_rejected_get_or_insert_with)");
                    resync = true;
                }
            }
        }
        if resync {
            // do not cascade: continue from what the implementation holds
            self.ra = set_contents(self.get("a"));
            self.rb = set_contents(self.get("b"));
        }
        // `clone_to_other` modifies the other collection; the state printed is always the target's
        let st = set_state(self.get(tgt));
        ret.push_str(&own_flags);
        format!("{} ; {} ; {} ; {}", ret, st, tape::take_events(), tape::counters())
    }
    fn dump(&self, tgt: &str) -> Dump {
        self.get(tgt).verif_dump()
    }
    fn keys(&self, tgt: &str) -> Vec<u64> {
        let m = self.get(tgt);
        let d = m.verif_dump();
        let mut out = Vec::new();
        if !d.is_singleton {
            for i in 0..=d.bucket_mask {
                if let Some(k) = m.verif_bucket(i) {
                    out.push(k.k());
                }
            }
        }
        out
    }
    fn finish(&mut self) -> Vec<String> {
        quiet();
        self.a = None;
        self.b = None;
        tape::take_returned();
        tape::with(|t| {
            let mut v = std::mem::take(&mut t.alloc_errors);
            let mut leaks: Vec<String> =
                t.live_blocks.drain().map(|(_, (s, a))| format!("leaked block {}/{}", s, a)).collect();
            leaks.sort();
            v.extend(leaks);
            v
        })
    }
}

impl<K: KeyT> SetRunner<K> {
    fn get_ref(&self, tgt: &str) -> &RefSet {
        if tgt == "a" {
            &self.ra
        } else {
            &self.rb
        }
    }
}

pub fn make(drop: bool, lay: &str) -> Box<dyn Runner> {
    match (drop, lay) {
        (true, "std") => Box::new(SetRunner::<KD<()>>::new()),
        (false, "std") => Box::new(SetRunner::<KC<()>>::new()),
        (true, "a16") => Box::new(SetRunner::<KD<A16>>::new()),
        (false, "a16") => Box::new(SetRunner::<KC<A16>>::new()),
        (true, "a32") => Box::new(SetRunner::<KD<A32>>::new()),
        (false, "a32") => Box::new(SetRunner::<KC<A32>>::new()),
        (true, "a64") => Box::new(SetRunner::<KD<A64>>::new()),
        (false, "a64") => Box::new(SetRunner::<KC<A64>>::new()),
        (true, "big") => Box::new(SetRunner::<KD<Big>>::new()),
        (false, "big") => Box::new(SetRunner::<KC<Big>>::new()),
        _ => panic!("no set runner for drop={} lay={}", drop, lay),
    }
}
