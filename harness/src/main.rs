mod elems;
mod exec;
mod gen;
mod pure;
mod tape;

use exec::{make_runner, Runner};
use std::fmt::Write as _;
use std::io::{BufRead, Write};
use tape::{mix3, Rng};

fn header(id: &str, coll: &str, lay: &str, r: &dyn Runner) -> String {
    let (size, align, drop, ids) = r.layout();
    format!(
        "scn {} coll={} w={} size={} align={} drop={} ids={} lay={}",
        id,
        coll,
        hashbrown::verif::GROUP_WIDTH,
        size,
        align,
        drop as u8,
        ids as u8,
        lay
    )
}

fn kvget<'a>(toks: &[&'a str], key: &str, default: &'a str) -> &'a str {
    for t in toks {
        if let Some((k, v)) = t.split_once('=') {
            if k == key {
                return v;
            }
        }
    }
    default
}

/// Execute a scenario file on the real code; print observations.
fn replay(path: &str, out: &mut dyn Write) {
    let f = std::fs::File::open(path).expect("open ops file");
    let mut runner: Option<Box<dyn Runner>> = None;
    for line in std::io::BufReader::new(f).lines() {
        let line = line.unwrap();
        let toks: Vec<&str> = line.split_whitespace().collect();
        match toks.first().copied() {
            Some("scn") => {
                tape::reset();
                let coll = kvget(&toks, "coll", "map").to_string();
                let drop = kvget(&toks, "drop", "1") == "1";
                let lay = kvget(&toks, "lay", "std").to_string();
                writeln!(out, "scn {}", toks[1]).unwrap();
                runner = if coll == "pure" { None } else { Some(make_runner(&coll, drop, &lay)) };
            }
            Some("env") => tape::with(|t| t.p.apply(&toks[1..])),
            Some("plan") => tape::with(|t| {
                for kv in &toks[1..] {
                    let (k, h) = kv.split_once('=').unwrap();
                    t.plan.insert(k.parse().unwrap(), h.parse().unwrap());
                }
            }),
            Some("op") => {
                let r = runner.as_mut().expect("op before scn");
                let obs = r.op(toks[1], toks[2], &toks[3..]);
                writeln!(out, "{}", obs).unwrap();
            }
            Some("fn") | Some("fnrange") => writeln!(out, "{}", pure::eval(&toks)).unwrap(),
            Some("end") => {
                if runner.is_none() {
                    writeln!(out, "end").unwrap();
                }
                if let Some(mut r) = runner.take() {
                    let complaints = r.finish();
                    if complaints.is_empty() {
                        writeln!(out, "end").unwrap();
                    } else {
                        writeln!(out, "end ORACLE {}", complaints.join(" | ")).unwrap();
                    }
                }
            }
            _ => {}
        }
    }
}

struct Profile {
    name: &'static str,
    coll: &'static str,
    gen: &'static str,
}

const PROFILES: &[Profile] = &[
    Profile { name: "grow", coll: "map", gen: "grow" },
    Profile { name: "churn", coll: "map", gen: "churn" },
    Profile { name: "saturate", coll: "map", gen: "saturate" },
    Profile { name: "mixed", coll: "map", gen: "mixed" },
];

/// Generate `count` scenarios of `profile`, execute them on the real code.
/// Writes `<out>.ops` (inputs) and `<out>.real` (observations).
fn generate(profile: &str, seed: u64, count: usize, out: &str) {
    let prof = PROFILES.iter().find(|p| p.name == profile).expect("unknown profile");
    let mut ops = std::io::BufWriter::new(std::fs::File::create(format!("{}.ops", out)).unwrap());
    let mut real = std::io::BufWriter::new(std::fs::File::create(format!("{}.real", out)).unwrap());
    for i in 0..count {
        let s = mix3(seed, i as u64, 0x51);
        let mut rng = Rng::new(s);
        let drop = rng.chance(2, 3);
        let lay = *rng.pick(&["std", "std", "std", "a16", "a64", "big"]);
        let lay = if !drop && lay == "a32" { "std" } else { lay };
        let universe = *rng.pick(&[4u64, 8, 12, 16, 24, 32, 64, 200]);
        let universe = if prof.gen == "saturate" { 4096 } else { universe };
        let kind = *rng.pick(gen::PLAN_KINDS);
        let steps = match prof.gen {
            "saturate" => 150 + rng.below(250) as usize,
            _ => 20 + rng.below(200) as usize,
        };
        tape::reset();
        let mut runner = make_runner(prof.coll, drop, lay);
        let id = format!("{}-{}-{}", profile, seed, i);
        let hdr = header(&id, prof.coll, lay, runner.as_ref());
        writeln!(ops, "{}", hdr).unwrap();
        writeln!(real, "scn {}", id).unwrap();
        let env = format!("env pred={}", rng.below(1 << 30));
        tape::with(|t| t.p.apply(&env.split_whitespace().skip(1).collect::<Vec<_>>()));
        writeln!(ops, "{}", env).unwrap();
        let plan = gen::make_plan(kind, universe, &mut rng);
        let mut pl = String::from("plan");
        for (k, h) in &plan {
            write!(pl, " {}={}", k, h).unwrap();
            tape::with(|t| {
                t.plan.insert(*k, *h);
            });
        }
        writeln!(ops, "{}", pl).unwrap();
        let mut g = gen::Gen::new(rng.next(), universe, prof.gen);
        for _ in 0..steps {
            let op = g.next(runner.as_ref());
            writeln!(ops, "op {}", op).unwrap();
            let toks: Vec<&str> = op.split_whitespace().collect();
            let obs = runner.op(toks[0], toks[1], &toks[2..]);
            writeln!(real, "{}", obs).unwrap();
        }
        writeln!(ops, "end").unwrap();
        let complaints = runner.finish();
        if complaints.is_empty() {
            writeln!(real, "end").unwrap();
        } else {
            writeln!(real, "end ORACLE {}", complaints.join(" | ")).unwrap();
        }
    }
}

fn main() {
    // panics raised by the oracles are expected: keep stderr quiet
    std::panic::set_hook(Box::new(|_| {}));
    let args: Vec<String> = std::env::args().collect();
    match args.get(1).map(|s| s.as_str()) {
        Some("replay") => {
            let stdout = std::io::stdout();
            let mut lock = std::io::BufWriter::new(stdout.lock());
            replay(&args[2], &mut lock);
        }
        Some("gen") => {
            let profile = &args[2];
            let seed: u64 = args[3].parse().unwrap();
            let count: usize = args[4].parse().unwrap();
            generate(profile, seed, count, &args[5]);
        }
        Some("genpure") => {
            let seed: u64 = args[2].parse().unwrap();
            let thorough = args[3] == "thorough";
            let out = &args[4];
            let mut ops = std::io::BufWriter::new(std::fs::File::create(format!("{}.ops", out)).unwrap());
            let mut real = std::io::BufWriter::new(std::fs::File::create(format!("{}.real", out)).unwrap());
            writeln!(ops, "scn pure-{} coll=pure w={}", seed, hashbrown::verif::GROUP_WIDTH).unwrap();
            writeln!(real, "scn pure-{}", seed).unwrap();
            for l in pure::generate(seed, thorough) {
                writeln!(ops, "{}", l).unwrap();
                let toks: Vec<&str> = l.split_whitespace().collect();
                writeln!(real, "{}", pure::eval(&toks)).unwrap();
            }
            writeln!(ops, "end").unwrap();
            writeln!(real, "end").unwrap();
        }
        Some("width") => println!("{}", hashbrown::verif::GROUP_WIDTH),
        _ => {
            eprintln!("usage: hbv gen <profile> <seed> <count> <out-prefix> | replay <ops-file> | width");
            std::process::exit(2);
        }
    }
}
