mod elems;
mod entry_ops;
mod exec;
mod extras;
mod gen;
mod gen_ext;
mod par_runner;
mod pure;
mod serde_runner;
mod set_runner;
mod table_runner;
mod tape;

use exec::{make_runner, Runner};
use std::fmt::Write as _;
use std::io::{BufRead, Write};
use tape::{mix3, Rng};

fn header(id: &str, coll: &str, lay: &str, r: &dyn Runner) -> String {
    let (size, align, drop, ids) = r.layout();
    format!(
        "scn {} coll={} w={} size={} align={} drop={} ids={} lay={}",
        id,
        coll,
        hashbrown::verif::GROUP_WIDTH,
        size,
        align,
        drop as u8,
        ids as u8,
        lay
    )
}

fn kvget<'a>(toks: &[&'a str], key: &str, default: &'a str) -> &'a str {
    for t in toks {
        if let Some((k, v)) = t.split_once('=') {
            if k == key {
                return v;
            }
        }
    }
    default
}

/// Execute a scenario file on the real code; print observations.
fn replay(path: &str, out: &mut dyn Write) {
    let f = std::fs::File::open(path).expect("open ops file");
    let mut runner: Option<Box<dyn Runner>> = None;
    for line in std::io::BufReader::new(f).lines() {
        let line = line.unwrap();
        let toks: Vec<&str> = line.split_whitespace().collect();
        match toks.first().copied() {
            Some("scn") => {
                tape::reset();
                let coll = kvget(&toks, "coll", "map").to_string();
                let drop = kvget(&toks, "drop", "1") == "1";
                let lay = kvget(&toks, "lay", "std").to_string();
                writeln!(out, "scn {}", toks[1]).unwrap();
                runner = if coll == "pure" { None } else { Some(make_runner(&coll, drop, &lay)) };
            }
            Some("env") => tape::with(|t| t.p.apply(&toks[1..])),
            Some("plan") => tape::with(|t| {
                for kv in &toks[1..] {
                    let (k, h) = kv.split_once('=').unwrap();
                    t.plan.insert(k.parse().unwrap(), h.parse().unwrap());
                }
            }),
            Some("op") => {
                let r = runner.as_mut().expect("op before scn");
                let obs = r.op(toks[1], toks[2], &toks[3..]);
                writeln!(out, "{}", obs).unwrap();
            }
            Some("fn") | Some("fnrange") => writeln!(out, "{}", pure::eval_caught(&toks)).unwrap(),
            Some("end") => {
                if runner.is_none() {
                    writeln!(out, "end").unwrap();
                }
                if let Some(mut r) = runner.take() {
                    let complaints = r.finish();
                    if complaints.is_empty() {
                        writeln!(out, "end").unwrap();
                    } else {
                        writeln!(out, "end ORACLE {}", complaints.join(" | ")).unwrap();
                    }
                }
            }
            _ => {}
        }
    }
}

struct Profile {
    name: &'static str,
    coll: &'static str,
    gen: &'static str,
    drop: Option<bool>,
    steps: Option<usize>,
    sweep: Option<&'static str>,
    sweep_ops: usize,
    sweep_k: usize,
}

const fn prof(name: &'static str, coll: &'static str, gen: &'static str) -> Profile {
    Profile { name, coll, gen, drop: None, steps: None, sweep: None, sweep_ops: 0, sweep_k: 0 }
}

const PROFILES: &[Profile] = &[
    prof("grow", "map", "grow"),
    prof("churn", "map", "churn"),
    Profile { steps: Some(4000), ..prof("churn-long", "map", "churn") },
    Profile { steps: Some(3000), ..prof("churn-window", "map", "churn") },
    prof("saturate", "map", "saturate"),
    prof("mixed", "map", "mixed"),
    Profile { steps: Some(260), ..prof("retain-chain", "map", "retainchain") },
    prof("reserve", "map", "reserve"),
    prof("iter", "map", "iter"),
    prof("xback", "map", "xback"),
    prof("xback-table", "table", "xback-table"),
    prof("clone", "map", "clone"),
    // inconsistent Hash / Eq (C05): answers are pseudo-random functions of the call number
    prof("broken-hash", "map", "mixed"),
    prof("broken-eq", "map", "mixed"),
    prof("broken-both", "map", "mixed"),
    prof("broken-sat", "map", "saturate"),
    prof("broken-entry", "map", "entry"),
    prof("broken-table", "table", "table"),
    prof("broken-set", "set", "set"),
    prof("par", "par", "par"),
    prof("serde", "serde", "serde"),
    prof("table", "table", "table"),
    Profile { steps: Some(520), ..prof("table-churn", "table", "table-churn") },
    prof("set", "set", "set"),
    prof("set-pairs", "set", "set-pairs"),
    Profile { sweep: Some("panic"), sweep_ops: 6, sweep_k: 16, steps: Some(70), ..prof("panic-set", "set", "set") },
    Profile { sweep: Some("panic"), sweep_ops: 8, sweep_k: 12, steps: Some(90), ..prof("panic-set-pairs", "set", "set-pairs") },
    prof("entry", "map", "entry"),
    prof("entry-full", "map", "entry-full"),
    prof("entry-sat", "map", "saturate"),
    // fault sweeps
    Profile { sweep: Some("panic"), sweep_ops: 6, sweep_k: 16, steps: Some(70), ..prof("panic-mixed", "map", "mixed") },
    Profile { sweep: Some("panic"), sweep_ops: 4, sweep_k: 24, steps: Some(90), drop: Some(true), ..prof("panic-sat-drop", "map", "saturate") },
    Profile { sweep: Some("panic"), sweep_ops: 4, sweep_k: 24, steps: Some(90), drop: Some(false), ..prof("panic-sat-nodrop", "map", "saturate") },
    Profile { sweep: Some("panic"), sweep_ops: 6, sweep_k: 16, steps: Some(70), ..prof("panic-entry", "map", "entry") },
    Profile { sweep: Some("alloc"), sweep_ops: 8, sweep_k: 8, steps: Some(60), ..prof("alloc-reserve", "map", "reserve") },
    Profile { sweep: Some("panic"), sweep_ops: 6, sweep_k: 16, steps: Some(70), ..prof("panic-table", "table", "table") },
    Profile { sweep: Some("panic"), sweep_ops: 4, sweep_k: 24, steps: Some(320), ..prof("panic-table-churn", "table", "table-churn") },
];


/// Crash journal (HBV_JOURNAL=<path>): every header / env / plan / op line is appended and flushed
/// BEFORE it is executed, so after an abort the last scenario in the journal is the replay.
fn journal(line: &str) {
    use std::sync::{Mutex, OnceLock};
    static J: OnceLock<Option<Mutex<std::fs::File>>> = OnceLock::new();
    let j = J.get_or_init(|| {
        std::env::var_os("HBV_JOURNAL").map(|p| Mutex::new(std::fs::File::create(p).expect("journal")))
    });
    if let Some(f) = j {
        let mut f = f.lock().unwrap();
        let _ = writeln!(f, "{}", line);
        let _ = f.flush();
    }
}

struct Base {
    id: String,
    coll: &'static str,
    drop: bool,
    lay: &'static str,
    pre: Vec<String>,           // env + plan lines
    ops: Vec<String>,           // without leading "op "
    counters: Vec<[u64; 6]>,    // (hc, ec, cc, pc, ac, dc) before each op, plus one after the last
    universe: u64,
    inplace: Vec<bool>,         // op performed an in-place rehash (tombstones gone, same bucket count)
}

fn deleted_of(d: &hashbrown::verif::Dump) -> usize {
    if d.is_singleton {
        0
    } else {
        d.ctrl[..=d.bucket_mask].iter().filter(|&&b| b == 0x80).count()
    }
}

/// Protocol line of a generated step (`env …` lines pass through, everything else is an op).
fn op_line(o: &str) -> String {
    if o.starts_with("env ") {
        o.to_string()
    } else {
        format!("op {}", o)
    }
}

fn counters_now() -> [u64; 6] {
    tape::with(|t| [t.hc, t.ec, t.cc, t.pc, t.ac, t.dc])
}

fn apply_pre(pre: &[String]) {
    for l in pre {
        let toks: Vec<&str> = l.split_whitespace().collect();
        match toks[0] {
            "env" => tape::with(|t| t.p.apply(&toks[1..])),
            "plan" => tape::with(|t| {
                for kv in &toks[1..] {
                    let (k, h) = kv.split_once('=').unwrap();
                    t.plan.insert(k.parse().unwrap(), h.parse().unwrap());
                }
            }),
            _ => {}
        }
    }
}

/// Build one base scenario by running the generator against the real collection.
fn make_base(prof: &Profile, seed: u64, i: usize, real: Option<&mut dyn Write>) -> Base {
    let s = mix3(seed.wrapping_mul(1_000_003), (i as u64).wrapping_mul(7919), 0x51);
    let mut rng = Rng::new(s);
    let drop = match prof.drop {
        Some(d) => d,
        None => rng.chance(2, 3),
    };
    let lay = *rng.pick(&["std", "std", "std", "a16", "a64", "big"]);
    let lay = if prof.coll == "table" && prof.name != "xback-table" && rng.chance(1, 5) { "zst" } else { lay };
    // odd element size (5 bytes, align 1): layout padding between data and control bytes
    let odd = prof.coll == "map" && !prof.gen.starts_with("entry") && prof.name != "entry-sat" && prof.drop.is_none() && rng.chance(1, 7);
    let (drop, lay) = if odd { (false, "odd5") } else { (drop, lay) };
    let universe = *rng.pick(&[4u64, 8, 12, 16, 24, 32, 64, 200]);
    let universe = if prof.gen == "saturate" || prof.name == "churn-window" { 4096 } else { universe };
    let kind = *rng.pick(gen::PLAN_KINDS);
    // spread-out homes: some keys find an EMPTY bucket first although the table is tombstone-saturated
    let kind = if prof.name == "entry-sat" && rng.chance(2, 3) { "mixed" } else { kind };
    let scripted = prof.name == "entry-sat" && rng.chance(1, 4);
    // displaced-group construction (gen::displaced_group_script) in the entry profiles
    let displaced = !scripted && (matches!(prof.name, "entry-sat" | "entry-full" | "entry") && rng.chance(1, 8) || prof.name == "broken-entry" && rng.chance(1, 3));
    // HashTable whose last remaining element is displaced (gen::last_displaced_script)
    let lastd = matches!(prof.name, "table" | "table-churn") && lay != "zst" && rng.chance(1, 8);
    // HashTable: displaced-group construction through insert_unique
    let tdisp = !lastd && matches!(prof.name, "table" | "table-churn") && lay != "zst" && rng.chance(1, 8);
    // map: last remaining element displaced, updated in place through replace_entry_with
    let lastm = !scripted && !displaced && matches!(prof.name, "entry" | "entry-full") && rng.chance(1, 10);
    // map filled to capacity and emptied into tombstones only: allocated, items == 0, growth_left == 0
    let tombfull = matches!(prof.name, "mixed" | "iter" | "reserve") && lay != "zst" && rng.chance(1, 10);
    // two maps with different bucket counts and equal capacity() (gen::capacity_twin_script)
    let twin = prof.name == "clone" && rng.chance(1, 6);
    let kind = if scripted || displaced || twin || lastd || tdisp || lastm || tombfull { "sequential" } else { kind };
    let universe = if displaced || lastd || tdisp || lastm || tombfull { 4096 } else if scripted || twin { 1024 } else { universe };
    // an Eq that lies while all hashes (or all tags) collide: every probe consults the lying Eq
    let eq_only = matches!(prof.name, "broken-set" | "broken-table" | "broken-entry") && !displaced && rng.chance(1, 3);
    let kind = if eq_only { *rng.pick(&["const0", "const0", "sametag", "samepos", "cluster"]) } else { kind };
    let kind = if prof.name == "churn-window" && rng.chance(2, 3) { "sequential" } else { kind };
    // table-churn: long probe chains (three and more groups) inside tables of 64-256 buckets, so that the
    // in-place rehash of a HashTable has to judge elements whose ideal group is several probe steps away
    let (kind, universe) = if prof.gen == "table-churn" && rng.chance(1, 2) {
        (*rng.pick(&["cluster", "samepos", "groupstride", "postag", "sequential"]), 512)
    } else {
        (kind, universe)
    };
    let (kind, universe) = if prof.name == "xback-table" {
        (*rng.pick(&["const0", "const0", "samepos", "sametag", "cluster", "groupstride", "sequential", "mixed"]), *rng.pick(&[24u64, 40, 64, 200]))
    } else {
        (kind, universe)
    };
    let (kind, universe) = if prof.name == "retain-chain" {
        (*rng.pick(&["samepos", "samepos", "cluster", "groupstride", "const0", "sametag", "sequential"]), *rng.pick(&[64u64, 128, 200]))
    } else {
        (kind, universe)
    };
    // scripted long-chain in-place rehash (see gen::chain_rehash_script)
    let chain = (prof.name == "table-churn" || prof.name == "saturate") && lay != "zst" && rng.chance(1, 10);
    let (kind, universe) = if chain { ("const0", 256) } else { (kind, universe) };
    let steps = match prof.gen {
        "saturate" => prof.steps.unwrap_or(150 + rng.below(250) as usize),
        _ => prof.steps.unwrap_or(20 + rng.below(200) as usize),
    };
    tape::reset();
    let mut runner = make_runner(prof.coll, drop, lay);
    let id = format!("{}-{}-{}", prof.name, seed, i);
    let mut pre = vec![format!("env pred={}", rng.below(1 << 30))];
    match prof.name {
        "broken-hash" => pre.push(format!("env hash=mix:{}", rng.below(1 << 30))),
        // (the displaced-group construction starts lawful and switches to an unlawful hasher itself)
        "broken-entry" if displaced => {}
        "broken-entry" | "broken-table" | "broken-set" if eq_only => pre.push(format!("env eq=mix:{}", rng.below(1 << 30))),
        "broken-entry" | "broken-table" | "broken-set" => {
            if rng.chance(1, 2) {
                pre.push(format!("env hash=mix:{}", rng.below(1 << 30)))
            } else {
                pre.push(format!("env hash=mix:{} eq=mix:{}", rng.below(1 << 30), rng.below(1 << 30)))
            }
        }
        "broken-eq" => pre.push(format!("env eq=mix:{}", rng.below(1 << 30))),
        "broken-both" => pre.push(format!("env hash=mix:{} eq=mix:{}", rng.below(1 << 30), rng.below(1 << 30))),
        _ => {}
    }
    let plan = gen::make_plan(kind, universe, &mut rng);
    let mut pl = String::from("plan");
    for (k, h) in &plan {
        write!(pl, " {}={}", k, h).unwrap();
    }
    pre.push(pl);
    apply_pre(&pre);
    journal(&header(&id, prof.coll, lay, runner.as_ref()));
    for l in &pre {
        journal(l);
    }
    let mut g = gen::Gen::new(rng.next(), universe, prof.gen);
    g.variant = prof.name;
    if scripted {
        g.script = gen::stale_slot_script(&mut rng);
    }
    let mut steps = steps;
    if tdisp {
        g.script = gen::displaced_group_script_for(&mut rng, false, true);
        steps = steps.max(g.script.len() + 10);
    }
    if tombfull {
        g.script = gen::tombstone_full_script(&mut rng);
        steps = steps.max(g.script.len() + 15);
    }
    if lastm {
        g.script = gen::last_displaced_map_script(&mut rng);
        steps = steps.max(g.script.len() + 10);
    }
    if lastd {
        g.script = gen::last_displaced_script(&mut rng);
        steps = steps.max(g.script.len() + 10);
    }
    if twin {
        g.script = gen::capacity_twin_script(&mut rng);
        steps = steps.max(g.script.len() + 10);
    }
    if displaced {
        g.script = gen::displaced_group_script(&mut rng, prof.name == "broken-entry");
        steps = steps.max(g.script.len() + 10);
    }
    if chain {
        g.script = gen::chain_rehash_script(prof.coll == "table");
        steps = steps.max(g.script.len() + 12);
    }
    let mut ops = Vec::new();
    let mut counters = Vec::new();
    let mut inplace = Vec::new();
    let mut real = real;
    if let Some(r) = real.as_mut() {
        writeln!(r, "scn {}", id).unwrap();
    }
    for _ in 0..steps {
        let op = g.next(runner.as_ref());
        counters.push(counters_now());
        if op.starts_with("env ") {
            // oracle switch requested by the generator: no observation line
            journal(&op);
            tape::with(|t| t.p.apply(&op.split_whitespace().skip(1).collect::<Vec<_>>()));
            inplace.push(false);
            ops.push(op);
            continue;
        }
        let toks: Vec<&str> = op.split_whitespace().collect();
        let before = runner.dump(toks[0]);
        let hc0 = counters_now()[0];
        journal(&format!("op {}", op));
        let obs = runner.op(toks[0], toks[1], &toks[2..]);
        let after = runner.dump(toks[0]);
        inplace.push(
            before.bucket_mask == after.bucket_mask
                && deleted_of(&before) > 0
                && deleted_of(&after) == 0
                && counters_now()[0] - hc0 >= before.items as u64
                && before.items > 0,
        );
        if let Some(r) = real.as_mut() {
            writeln!(r, "{}", obs).unwrap();
        }
        ops.push(op);
    }
    counters.push(counters_now());
    let complaints = runner.finish();
    if let Some(r) = real.as_mut() {
        if complaints.is_empty() {
            writeln!(r, "end").unwrap();
        } else {
            writeln!(r, "end ORACLE {}", complaints.join(" | ")).unwrap();
        }
    }
    Base { id, coll: prof.coll, drop, lay, pre, ops, counters, universe, inplace }
}

fn write_header(ops: &mut dyn Write, b: &Base, id: &str) {
    tape::reset();
    let runner = make_runner(b.coll, b.drop, b.lay);
    writeln!(ops, "{}", header(id, b.coll, b.lay, runner.as_ref())).unwrap();
    for l in &b.pre {
        writeln!(ops, "{}", l).unwrap();
    }
}

/// Generate `count` scenarios of `profile`, execute them on the real code.
/// Writes `<out>.ops` (inputs) and `<out>.real` (observations).
fn generate(profile: &str, seed: u64, count: usize, out: &str) {
    let prof = PROFILES.iter().find(|p| p.name == profile).expect("unknown profile");
    let mut ops = std::io::BufWriter::new(std::fs::File::create(format!("{}.ops", out)).unwrap());
    let mut real = std::io::BufWriter::new(std::fs::File::create(format!("{}.real", out)).unwrap());
    if prof.sweep.is_some() {
        return sweep(prof, seed, count, &mut ops, &mut real);
    }
    for i in 0..count {
        let b = make_base(prof, seed, i, Some(&mut real));
        write_header(&mut ops, &b, &b.id);
        for o in &b.ops {
            writeln!(ops, "{}", op_line(o)).unwrap();
        }
        writeln!(ops, "end").unwrap();
        ops.flush().unwrap();
    }
}

/// Fault sweeps: for each base scenario and each selected op, for every callback class and every
/// k below the number of invocations that op made, a scenario in which exactly the k-th invocation
/// panics (or, for `alloc`, the j-th allocator request is refused), followed by probes.
fn sweep(prof: &Profile, seed: u64, count: usize, ops: &mut dyn Write, real: &mut dyn Write) {
    let classes: &[(&str, usize)] = match prof.sweep.unwrap() {
        "panic" => &[("hpanic", 0), ("epanic", 1), ("cpanic", 2), ("ppanic", 3), ("dpanic", 5)],
        _ => &[("afail", 4)],
    };
    for i in 0..count {
        let b = make_base(prof, seed, i, None);
        let mut rng = Rng::new(mix3(seed, i as u64, 0x77));
        // ops that invoked callbacks; prefer the rare heavy ones (rehash/resize/clone/retain)
        let fallible_only = prof.sweep.unwrap() == "alloc";
        let mut cand: Vec<usize> = (0..b.ops.len())
            .filter(|&j| classes.iter().any(|&(_, c)| b.counters[j + 1][c] > b.counters[j][c]))
            .filter(|&j| !fallible_only || b.ops[j].split_whitespace().nth(1) == Some("try_reserve"))
            .collect();
        cand.sort_by_key(|&j| {
            let d: u64 = classes.iter().map(|&(_, c)| b.counters[j + 1][c] - b.counters[j][c]).sum();
            std::cmp::Reverse(d)
        });
        // in-place rehashes first (rare, guarded), then the heaviest, then random ones
        let mut chosen: Vec<usize> = cand.iter().copied().filter(|&j| b.inplace[j]).take(2).collect();
        // then one op of each guarded / bulk kind (rotating over scenarios, so that every kind is swept
        // in some scenario of a batch whatever the generator's mix)
        const KINDS: &[&str] = &[
            "drain", "into_iter", "clear", "retain", "extract_if", "clone_from", "clone_to_other", "drain_fold",
            "into_iter_fold", "shrink_to", "shrink_to_fit", "into_keys", "into_values", "extend", "from_iter",
            "bitor_assign", "bitxor_assign", "bitand_assign", "sub_assign", "replace", "get_or_insert_with",
        ];
        let name_of = |j: usize| b.ops[j].split_whitespace().nth(1).unwrap_or("").to_string();
        for r in 0..KINDS.len() {
            if chosen.len() >= prof.sweep_ops / 2 + 1 {
                break;
            }
            let kind = KINDS[(r + i * 3) % KINDS.len()];
            if let Some(&j) = cand.iter().find(|&&j| name_of(j) == kind && !chosen.contains(&j)) {
                chosen.push(j);
            }
        }
        for &j in cand.iter().take(prof.sweep_ops / 2) {
            if chosen.len() < prof.sweep_ops && !chosen.contains(&j) {
                chosen.push(j);
            }
        }
        while chosen.len() < prof.sweep_ops && chosen.len() < cand.len() {
            let j = *rng.pick(&cand);
            if !chosen.contains(&j) {
                chosen.push(j);
            }
        }
        let mut n = 0;
        for &j in &chosen {
            for &(cls, c) in classes {
                let d = b.counters[j + 1][c] - b.counters[j][c];
                let ks: Vec<u64> = if d <= prof.sweep_k as u64 {
                    (0..d).collect()
                } else {
                    // all early ones, then a spread, always the last
                    let mut v: Vec<u64> = (0..(prof.sweep_k as u64 / 2)).collect();
                    for _ in 0..(prof.sweep_k / 2) {
                        v.push(rng.below(d));
                    }
                    v.push(d - 1);
                    v.sort();
                    v.dedup();
                    v
                };
                for k in ks {
                    let id = format!("{}-op{}-{}{}", b.id, j, cls, k);
                    let mut lines: Vec<String> = Vec::new();
                    for o in &b.ops[..j] {
                        lines.push(op_line(o));
                    }
                    lines.push(format!("env {}={}", cls, b.counters[j][c] + k));
                    lines.push(format!("op {}", b.ops[j]));
                    lines.push(format!("env {}=-", cls));
                    // probes: every key of a small universe, iteration, growth, drop
                    let tgt = b.ops[j].split_whitespace().next().unwrap().to_string();
                    lines.push(format!("op {} iter 0 iter", tgt));
                    for key in 0..std::cmp::min(b.universe, 12) {
                        lines.push(format!("op {} get {}", tgt, key));
                    }
                    lines.push(format!("op {} insert {} 800001 800002 5", tgt, b.universe + 1));
                    lines.push(format!("op {} iter 2 keys", tgt));
                    lines.push(format!("op {} reserve 30", tgt));
                    lines.push(format!("op {} iter 1 values", tgt));
                    lines.push(format!("op {} clear", tgt));
                    lines.push("op a nop".into());
                    lines.push("op b nop".into());
                    write_header(ops, &b, &id);
                    writeln!(real, "scn {}", id).unwrap();
                    let mut runner = make_runner(b.coll, b.drop, b.lay);
                    apply_pre(&b.pre);
                    journal(&header(&id, b.coll, b.lay, runner.as_ref()));
                    for l in &b.pre {
                        journal(l);
                    }
                    for l in &lines {
                        writeln!(ops, "{}", l).unwrap();
                        journal(l);
                        let toks: Vec<&str> = l.split_whitespace().collect();
                        if toks[0] == "env" {
                            tape::with(|t| t.p.apply(&toks[1..]));
                        } else {
                            let obs = runner.op(toks[1], toks[2], &toks[3..]);
                            writeln!(real, "{}", obs).unwrap();
                        }
                    }
                    writeln!(ops, "end").unwrap();
                    let complaints = runner.finish();
                    if complaints.is_empty() {
                        writeln!(real, "end").unwrap();
                    } else {
                        writeln!(real, "end ORACLE {}", complaints.join(" | ")).unwrap();
                    }
                    n += 1;
                }
            }
        }
        let _ = n;
    }
}

fn main() {
    // panics raised by the oracles are expected: keep stderr quiet
    std::panic::set_hook(Box::new(|_| {}));
    let args: Vec<String> = std::env::args().collect();
    match args.get(1).map(|s| s.as_str()) {
        Some("replay") => {
            let stdout = std::io::stdout();
            let mut lock = std::io::BufWriter::new(stdout.lock());
            replay(&args[2], &mut lock);
        }
        Some("gen") => {
            let profile = &args[2];
            let seed: u64 = args[3].parse().unwrap();
            let count: usize = args[4].parse().unwrap();
            generate(profile, seed, count, &args[5]);
        }
        Some("genpure") => {
            let seed: u64 = args[2].parse().unwrap();
            let thorough = args[3] == "thorough";
            let out = &args[4];
            let mut ops = std::io::BufWriter::new(std::fs::File::create(format!("{}.ops", out)).unwrap());
            let mut real = std::io::BufWriter::new(std::fs::File::create(format!("{}.real", out)).unwrap());
            writeln!(ops, "scn pure-{} coll=pure w={}", seed, hashbrown::verif::GROUP_WIDTH).unwrap();
            writeln!(real, "scn pure-{}", seed).unwrap();
            journal(&format!("scn pure-{} coll=pure w={}", seed, hashbrown::verif::GROUP_WIDTH));
            let lines = if args[3] == "serde" { pure::generate_serde() } else { pure::generate(seed, thorough) };
            for l in lines {
                writeln!(ops, "{}", l).unwrap();
                // journalled before it runs: a call that aborts the process (e.g. the unsafe-precondition
                // check of Layout::from_size_align_unchecked) is the last line of the journal
                journal(&l);
                let toks: Vec<&str> = l.split_whitespace().collect();
                writeln!(real, "{}", pure::eval_caught(&toks)).unwrap();
            }
            writeln!(ops, "end").unwrap();
            writeln!(real, "end").unwrap();
        }
        Some("extras") => {
            // oracle-only scenarios (differently seeded hashers, zero-sized maps / sets)
            let seed: u64 = args[2].parse().unwrap();
            let count: usize = args[3].parse().unwrap();
            extras::run(seed, count, &args[4]);
        }
        Some("width") => println!("{}", hashbrown::verif::GROUP_WIDTH),
        _ => {
            eprintln!("usage: hbv gen <profile> <seed> <count> <out-prefix> | replay <ops-file> | width");
            std::process::exit(2);
        }
    }
}
