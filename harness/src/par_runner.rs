//! Runner and generator for `coll=par` scenarios (property C19: rayon parallel iterators).
//!
//! Two kinds of operations:
//! * ordinary map operations (`insert`, `remove`, `reserve`, …) that build the occupancy pattern, and
//!   `split <tree>`, which drives `RawIterRange::split` along a caller-chosen decision tree through the
//!   `verif_split_leaves` hook — both are mirrored by the Lean model line by line;
//! * real rayon operations in thread pools of 1..64 threads. Their schedule is not predictable, so
//!   they are judged by DIRECT ORACLES only (multisets, id ledgers, comparison with the sequential
//!   counterpart on the same collections) and print `ok` or `ORACLE-PAR(<what>)`. Where the effect on
//!   the target is schedule-independent (`par_drain`, `into_par_iter`, `par_iter_mut`,
//!   `par_values_mut`) it is applied to the target itself and shows up in the state dump that the
//!   model must reproduce; everything else runs on scratch copies.
//!
//! `Drop`, `Hash`, `Eq` and the allocator run on rayon worker threads, so this runner has its own
//! element types and allocator backed by ONE process-global tape: for the duration of an operation
//! the thread-local tape of the driver thread is moved into `GT` and moved back afterwards
//! (tape.rs semantics for other runners are unchanged).
use crate::exec::{fmt_state, inv_oracle, panic_class, Runner};
use crate::elems::IdBuild;
use crate::gen::Gen;
use crate::tape::{self, mix3, Tape, TapePanic};
use allocator_api2::alloc::{AllocError, Allocator, Global, Layout};
use hashbrown::verif::Dump;
use hashbrown::{HashMap, HashSet, HashTable};
use rayon::prelude::*;
use std::collections::{BTreeMap, BTreeSet, VecDeque};
use std::hash::{Hash, Hasher};
use std::panic::{catch_unwind, AssertUnwindSafe};
use std::ptr::NonNull;
use std::sync::atomic::{AtomicU64, Ordering};
use std::sync::{Arc, Mutex};

// ------------------------------------------------------------------ process-global tape

static GT: Mutex<Option<Tape>> = Mutex::new(None);

fn gt<R>(f: impl FnOnce(&mut Tape) -> R) -> Option<R> {
    let mut g = GT.lock().unwrap_or_else(|e| e.into_inner());
    g.as_mut().map(f)
}

/// Move the driver thread's tape into the global slot.
fn enter() {
    let t = tape::with(std::mem::take);
    *GT.lock().unwrap_or_else(|e| e.into_inner()) = Some(t);
}

/// Move it back.
fn leave() {
    let t = GT.lock().unwrap_or_else(|e| e.into_inner()).take();
    if let Some(t) = t {
        tape::with(|x| *x = t);
    }
}

fn g_hash_of(k: u64) -> u64 {
    let r = gt(|t| {
        let c = t.hc;
        t.hc += 1;
        if t.p.hpanic == Some(c) {
            None
        } else if let Some(seed) = t.p.hash_mix {
            Some(mix3(seed, c, k))
        } else {
            Some(t.plan.get(&k).copied().unwrap_or_else(|| mix3(0x5eed, 0, k)))
        }
    });
    match r {
        Some(Some(h)) => h,
        Some(None) => std::panic::panic_any(TapePanic("hash")),
        None => mix3(0x5eed, 0, k),
    }
}

/// Hash the plan assigns to `k`, no tape consumption (caller-supplied hashes of `HashTable`).
fn g_plan_hash(k: u64) -> u64 {
    gt(|t| t.plan.get(&k).copied().unwrap_or_else(|| mix3(0x5eed, 0, k))).unwrap_or_else(|| mix3(0x5eed, 0, k))
}

fn g_eq_of(probe: u64, stored: u64) -> bool {
    let r = gt(|t| {
        let c = t.ec;
        t.ec += 1;
        if t.p.epanic == Some(c) {
            None
        } else if let Some(seed) = t.p.eq_mix {
            Some(mix3(seed, c, 0) % 2 == 1)
        } else {
            Some(probe == stored)
        }
    });
    match r {
        Some(Some(b)) => b,
        Some(None) => std::panic::panic_any(TapePanic("eq")),
        None => probe == stored,
    }
}

fn g_drop_key(id: u64) {
    gt(|t| {
        if t.logging {
            t.dc += 1;
            t.events.push(format!("dk{}", id));
        } else {
            t.returned.push(format!("k{}", id));
        }
    });
}

fn g_drop_val(id: u64) {
    gt(|t| {
        if t.logging {
            t.events.push(format!("dv{}", id));
        } else {
            t.returned.push(format!("v{}", id));
        }
    });
}

fn g_quiet() {
    gt(|t| t.logging = false);
}
fn g_loud() {
    gt(|t| t.logging = true);
}

/// Allocator with the bookkeeping of `TapeAlloc`, on the global tape.
#[derive(Clone, Copy, Default)]
pub struct GAlloc;

unsafe impl Allocator for GAlloc {
    fn allocate(&self, layout: Layout) -> Result<NonNull<[u8]>, AllocError> {
        let ok = gt(|t| {
            let j = t.ac;
            t.ac += 1;
            let fail = t.p.afail == Some(j) || t.p.afrom.map_or(false, |f| j >= f);
            if !fail {
                t.events.push(format!("al{}/{}", layout.size(), layout.align()));
            }
            !fail
        })
        .unwrap_or(true);
        if !ok {
            return Err(AllocError);
        }
        let p = Global.allocate(layout)?;
        unsafe { std::ptr::write_bytes(p.as_ptr() as *mut u8, 0xA7, layout.size()) };
        gt(|t| {
            if layout.size() == 0 || !layout.align().is_power_of_two() {
                t.alloc_errors.push(format!("invalid layout requested {:?}", layout));
            }
            t.live_blocks.insert(p.as_ptr() as *mut u8 as usize, (layout.size(), layout.align()))
        });
        Ok(p)
    }
    unsafe fn deallocate(&self, ptr: NonNull<u8>, layout: Layout) {
        let known = gt(|t| {
            t.events.push(format!("fr{}/{}", layout.size(), layout.align()));
            t.live_blocks.remove(&(ptr.as_ptr() as usize))
        });
        match known {
            Some(Some((s, a))) if s == layout.size() && a == layout.align() => {
                std::ptr::write_bytes(ptr.as_ptr(), 0xDD, layout.size());
                Global.deallocate(ptr, layout)
            }
            Some(Some((s, a))) => {
                gt(|t| {
                    t.alloc_errors.push(format!(
                        "dealloc layout mismatch: allocated {}/{} freed {}/{}",
                        s,
                        a,
                        layout.size(),
                        layout.align()
                    ))
                });
            }
            Some(None) => {
                gt(|t| t.alloc_errors.push(format!("dealloc of unknown block {:p}", ptr.as_ptr())));
            }
            // runner dropped outside an operation (never happens for live tables): plain free
            None => Global.deallocate(ptr, layout),
        }
    }
}

// ------------------------------------------------------------------ element types

pub trait PKey: Hash + Eq + Send + Sync + 'static {
    const DROP: bool;
    fn new(k: u64, id: u64) -> Self;
    fn k(&self) -> u64;
    fn id(&self) -> u64;
}
pub trait PVal: PartialEq + Send + Sync + 'static {
    fn new(id: u64, v: u64) -> Self;
    fn id(&self) -> u64;
    fn v(&self) -> u64;
    fn set_v(&mut self, v: u64);
}

macro_rules! pkey {
    ($name:ident, $drop:expr) => {
        pub struct $name {
            k: u64,
            id: u64,
        }
        impl Hash for $name {
            fn hash<H: Hasher>(&self, state: &mut H) {
                state.write_u64(g_hash_of(self.k));
            }
        }
        impl PartialEq for $name {
            fn eq(&self, o: &Self) -> bool {
                g_eq_of(self.k, o.k)
            }
        }
        impl Eq for $name {}
        impl PKey for $name {
            const DROP: bool = $drop;
            fn new(k: u64, id: u64) -> Self {
                $name { k, id }
            }
            fn k(&self) -> u64 {
                self.k
            }
            fn id(&self) -> u64 {
                self.id
            }
        }
    };
}
macro_rules! pval {
    ($name:ident) => {
        pub struct $name {
            id: u64,
            v: u64,
        }
        impl PartialEq for $name {
            fn eq(&self, o: &Self) -> bool {
                self.v == o.v
            }
        }
        impl PVal for $name {
            fn new(id: u64, v: u64) -> Self {
                $name { id, v }
            }
            fn id(&self) -> u64 {
                self.id
            }
            fn v(&self) -> u64 {
                self.v
            }
            fn set_v(&mut self, v: u64) {
                self.v = v
            }
        }
    };
}
pkey!(PKD, true);
pkey!(PKC, false);
pval!(PVD);
pval!(PVC);
impl Drop for PKD {
    fn drop(&mut self) {
        g_drop_key(self.id);
    }
}
impl Drop for PVD {
    fn drop(&mut self) {
        g_drop_val(self.id);
    }
}

/// Borrowed look-up form (no destructor).
#[derive(Clone, Copy)]
struct PQ(u64);
impl Hash for PQ {
    fn hash<H: Hasher>(&self, state: &mut H) {
        state.write_u64(g_hash_of(self.0));
    }
}
impl<K: PKey> hashbrown::Equivalent<K> for PQ {
    fn equivalent(&self, key: &K) -> bool {
        g_eq_of(self.0, key.k())
    }
}

type PM<K, V> = HashMap<K, V, IdBuild, GAlloc>;
type PS<K> = HashSet<K, IdBuild, GAlloc>;
type PT<K, V> = HashTable<(K, V), GAlloc>;

// ------------------------------------------------------------------ thread pools

fn pool(n: usize) -> Arc<rayon::ThreadPool> {
    static POOLS: Mutex<Vec<Option<Arc<rayon::ThreadPool>>>> = Mutex::new(Vec::new());
    let n = n.clamp(1, 64);
    let mut g = POOLS.lock().unwrap_or_else(|e| e.into_inner());
    if g.len() <= n {
        g.resize(n + 1, None);
    }
    if g[n].is_none() {
        g[n] = Some(Arc::new(rayon::ThreadPoolBuilder::new().num_threads(n).build().expect("thread pool")));
    }
    g[n].as_ref().unwrap().clone()
}

/// Perturb the schedule a little.
fn jitter(x: u64) {
    if x % 5 == 0 {
        std::thread::yield_now();
    }
}

// ------------------------------------------------------------------ decision trees

#[derive(Debug)]
pub enum Tree {
    L,
    N(Box<Tree>, Box<Tree>),
}

pub fn parse_tree(s: &str) -> Tree {
    fn go(b: &[u8], i: &mut usize) -> Tree {
        if *i < b.len() && b[*i] == b'N' {
            *i += 2; // "N("
            let l = go(b, i);
            *i += 1; // ","
            let r = go(b, i);
            *i += 1; // ")"
            Tree::N(Box::new(l), Box::new(r))
        } else {
            *i += 1; // "L"
            Tree::L
        }
    }
    go(s.as_bytes(), &mut 0)
}

impl Tree {
    /// "Is the range reached by `path` split?" (false = left, true = right)
    fn decide(&self, path: &[bool]) -> bool {
        let mut t = self;
        for &p in path {
            match t {
                Tree::L => return false,
                Tree::N(l, r) => t = if p { r } else { l },
            }
        }
        matches!(t, Tree::N(..))
    }
    fn show(&self) -> String {
        match self {
            Tree::L => "L".into(),
            Tree::N(l, r) => format!("N({},{})", l.show(), r.show()),
        }
    }
}

fn fmt_leaves(ls: &[Vec<usize>]) -> String {
    ls.iter()
        .enumerate()
        .map(|(i, l)| format!("l{}={}", i, crate::exec::nats(l)))
        .collect::<Vec<_>>()
        .join(";")
}

fn full_buckets(d: &Dump) -> Vec<usize> {
    if d.is_singleton {
        return Vec::new();
    }
    (0..=d.bucket_mask).filter(|&i| d.ctrl[i] & 0x80 == 0).collect()
}

// ------------------------------------------------------------------ the runner

pub struct ParRunner<K: PKey, V: PVal> {
    a: Option<PM<K, V>>,
    b: Option<PM<K, V>>,
    scratch_id: u64,
}

fn new_map<K: PKey, V: PVal>() -> PM<K, V> {
    HashMap::with_hasher_in(IdBuild, GAlloc)
}

fn contents<K: PKey, V: PVal>(m: &PM<K, V>) -> Vec<(usize, u64, u64, u64, u64)> {
    let d = m.verif_dump();
    let mut out = Vec::new();
    if !d.is_singleton {
        for i in 0..=d.bucket_mask {
            if let Some((k, v)) = m.verif_bucket(i) {
                out.push((i, k.k(), k.id(), v.id(), v.v()));
            }
        }
    }
    out
}

fn state_of<K: PKey, V: PVal>(m: &PM<K, V>) -> String {
    let d = m.verif_dump();
    let slots: Vec<(usize, String)> = contents(m)
        .into_iter()
        .map(|(i, k, kid, vid, v)| (i, format!("{}.{}.{}.{}", k, kid, vid, v)))
        .collect();
    format!("{} len={} cap={} asz={}", fmt_state(&d, &slots), m.len(), m.capacity(), m.allocation_size())
}

/// What a short-circuiting consumer does.
#[derive(Clone, Copy, PartialEq, Debug)]
enum Mode {
    /// `for_each`: never full
    All,
    /// `try_for_each` returning `Err` once `stop` elements have been received
    Tfe,
    /// `find_any` whose predicate turns true at the `stop`-th call (rejected elements are dropped by rayon)
    Find,
    /// the parallel iterator is dropped without being driven
    Drop,
    /// `collect::<Vec<_>>()` (consults `opt_len`: the indexed-collect fast path), then everything is kept
    Collect,
    /// `for_each` whose closure panics when it has received `stop` elements (unwinding through
    /// `fold_with` drops the producer; rayon re-raises the panic once all leaves are done)
    Panic,
}

fn mode_of(s: &str) -> Mode {
    match s {
        "tfe" => Mode::Tfe,
        "find" => Mode::Find,
        "drop" => Mode::Drop,
        "panic" => Mode::Panic,
        "collect" => Mode::Collect,
        _ => Mode::All,
    }
}

/// Drive an owning parallel iterator with an early-stopping consumer; returns the `(kid, vid)` of the
/// elements the consumer kept (they are forgotten, so they never reach the drop log).
/// Marker pushed into the consumed list when a parallel iterator panicked on its own.
const PANICKED: (u64, u64) = (u64::MAX, u64::MAX);

fn drive<T: Send, I: ParallelIterator<Item = T>>(
    threads: usize,
    make: impl FnOnce() -> I + Send,
    stop: u64,
    mode: Mode,
    ids: fn(&T) -> (u64, u64),
) -> Vec<(u64, u64)> {
    let consumed: Mutex<Vec<(u64, u64)>> = Mutex::new(Vec::new());
    let cnt = AtomicU64::new(0);
    let keep = |x: T| {
        let id = ids(&x);
        consumed.lock().unwrap().push(id);
        std::mem::forget(x);
        jitter(id.0);
    };
    let res = catch_unwind(AssertUnwindSafe(|| pool(threads).install(|| {
        let it = make();
        match mode {
            Mode::Collect => {
                let v: Vec<T> = it.collect();
                for x in v {
                    keep(x);
                }
            }
            Mode::Panic => it.for_each(|x| {
                keep(x);
                if cnt.fetch_add(1, Ordering::SeqCst) + 1 == stop {
                    std::panic::panic_any(TapePanic("pred"));
                }
            }),
            Mode::All => it.for_each(|x| keep(x)),
            Mode::Tfe => {
                let _ = it.try_for_each(|x| {
                    keep(x);
                    if cnt.fetch_add(1, Ordering::SeqCst) + 1 >= stop {
                        Err(())
                    } else {
                        Ok(())
                    }
                });
            }
            Mode::Find => {
                if let Some(x) = it.find_any(|x| {
                    jitter(ids(x).0);
                    cnt.fetch_add(1, Ordering::SeqCst) + 1 >= stop
                }) {
                    keep(x)
                }
            }
            Mode::Drop => drop(it),
        }
    })));
    let mut consumed = consumed.into_inner().unwrap_or_else(|e| e.into_inner());
    if res.is_err() && mode != Mode::Panic {
        // nothing the consumer does panics in this mode: the panic came out of the parallel iterator
        consumed.push(PANICKED);
    }
    consumed
}

/// `par_drain` of a collection that is empty (possibly owning an allocation) collected into a `Vec` (rayon's
/// `opt_len`-aware sink): yields nothing, as the sequential `drain` does, and does not panic.
fn drain_again<T: Send, I: ParallelIterator<Item = T>>(threads: usize, what: &str, make: impl FnOnce() -> I + Send) -> Result<(), String> {
    match catch_unwind(AssertUnwindSafe(|| pool(threads).install(|| make().collect::<Vec<T>>().len()))) {
        Ok(0) => Ok(()),
        Ok(n) => Err(format!("{}: par_drain of the emptied collection yielded {} elements", what, n)),
        Err(_) => Err(format!("{}: par_drain().collect::<Vec<_>>() of the emptied collection panicked (sequential drain yields nothing)", what)),
    }
}

/// "Every element consumed or dropped exactly once": `stored` = ids held before, `consumed` = kept by
/// the consumer, drop log = everything destroyed meanwhile (by hashbrown or by rayon).
fn ledger(
    what: &str,
    stored: &[(u64, u64)],
    consumed: &[(u64, u64)],
    events: &[String],
    has_drop: bool,
    has_val: bool,
    stop: u64,
    mode: Mode,
) -> Option<String> {
    let st: BTreeSet<(u64, u64)> = stored.iter().copied().collect();
    let mut seen = BTreeSet::new();
    if consumed.contains(&PANICKED) {
        return Some(format!("{}: the parallel iterator panicked (consumer mode {:?}, {} stored)", what, mode, stored.len()));
    }
    for c in consumed {
        if !st.contains(c) {
            return Some(format!("{}: consumer received {}.{} which was not stored", what, c.0, c.1));
        }
        if !seen.insert(*c) {
            return Some(format!("{}: element {}.{} delivered twice", what, c.0, c.1));
        }
    }
    let n = stored.len() as u64;
    let want_ok = match mode {
        Mode::All | Mode::Collect => consumed.len() as u64 == n,
        Mode::Tfe | Mode::Panic => consumed.len() as u64 >= stop.min(n),
        Mode::Find => consumed.len() as u64 == if n >= stop { 1 } else { 0 },
        Mode::Drop => consumed.is_empty(),
    };
    if !want_ok {
        return Some(format!("{}: consumer received {} of {} elements (stop {})", what, consumed.len(), n, stop));
    }
    if has_drop {
        let mut dk: Vec<u64> = Vec::new();
        let mut dv: Vec<u64> = Vec::new();
        for e in events {
            if let Some(x) = e.strip_prefix("dk") {
                dk.push(x.parse().unwrap());
            } else if let Some(x) = e.strip_prefix("dv") {
                dv.push(x.parse().unwrap());
            }
        }
        let mut ks: Vec<u64> = consumed.iter().map(|c| c.0).chain(dk).collect();
        let mut want: Vec<u64> = stored.iter().map(|c| c.0).collect();
        ks.sort();
        want.sort();
        if ks != want {
            return Some(format!("{}: key objects consumed+dropped {:?} != stored {:?}", what, ks, want));
        }
        if has_val {
            let mut vs: Vec<u64> = consumed.iter().map(|c| c.1).chain(dv).collect();
            let mut want: Vec<u64> = stored.iter().map(|c| c.1).collect();
            vs.sort();
            want.sort();
            if vs != want {
                return Some(format!("{}: value objects consumed+dropped {:?} != stored {:?}", what, vs, want));
            }
        }
    }
    None
}

fn ids_kv<K: PKey, V: PVal>(x: &(K, V)) -> (u64, u64) {
    (x.0.id(), x.1.id())
}
fn ids_k<K: PKey>(x: &K) -> (u64, u64) {
    (x.id(), 0)
}

fn take_events() -> Vec<String> {
    gt(|t| std::mem::take(&mut t.events)).unwrap_or_default()
}

impl<K: PKey, V: PVal> ParRunner<K, V> {
    pub fn new() -> Self {
        ParRunner { a: Some(new_map()), b: Some(new_map()), scratch_id: 2_000_000 }
    }
    fn get(&self, tgt: &str) -> &PM<K, V> {
        if tgt == "a" {
            self.a.as_ref().unwrap()
        } else {
            self.b.as_ref().unwrap()
        }
    }
    fn sid(&mut self) -> u64 {
        self.scratch_id += 1;
        self.scratch_id
    }

    /// Scratch copy of a map: same keys and payloads, fresh identities, inserted in bucket order.
    fn scratch_map(&mut self, src: &[(usize, u64, u64, u64, u64)]) -> PM<K, V> {
        let mut m = new_map();
        for &(_, k, _, _, v) in src {
            let (a, b) = (self.sid(), self.sid());
            m.insert(K::new(k, a), V::new(b, v));
        }
        m
    }
    fn scratch_set(&mut self, src: &[(usize, u64, u64, u64, u64)]) -> PS<K> {
        let mut s = HashSet::with_hasher_in(IdBuild, GAlloc);
        for &(_, k, _, _, _) in src {
            let a = self.sid();
            s.insert(K::new(k, a));
        }
        s
    }
    fn scratch_table(&mut self, src: &[(usize, u64, u64, u64, u64)]) -> PT<K, V> {
        let mut t = HashTable::new_in(GAlloc);
        for &(_, k, _, _, v) in src {
            let (a, b) = (self.sid(), self.sid());
            t.insert_unique(g_plan_hash(k), (K::new(k, a), V::new(b, v)), |e| g_plan_hash(e.0.k()));
        }
        t
    }

    /// Ordinary operations (mirrored by the model through `execMapOp`) and `split`.
    fn run_plain(&mut self, tgt: &str, name: &str, a: &[&str]) -> Option<String> {
        let n = |i: usize| -> u64 { a[i].parse().unwrap() };
        let m = if tgt == "a" { self.a.as_mut().unwrap() } else { self.b.as_mut().unwrap() };
        Some(match (name, a.len()) {
            ("insert", 4) => {
                let r = m.insert(K::new(n(0), n(1)), V::new(n(2), n(3)));
                g_quiet();
                r.as_ref().map_or("-".into(), |v| format!("{}.{}", v.id(), v.v()))
            }
            ("remove", 1) => {
                let r = m.remove(&PQ(n(0)));
                g_quiet();
                r.as_ref().map_or("-".into(), |v| format!("{}.{}", v.id(), v.v()))
            }
            ("get", 1) => m
                .get_key_value(&PQ(n(0)))
                .map_or("-".into(), |(k, v)| format!("{}.{}.{}.{}", k.k(), k.id(), v.id(), v.v())),
            ("clear", 0) => {
                m.clear();
                "()".into()
            }
            ("reserve", 1) => {
                m.reserve(n(0) as usize);
                "()".into()
            }
            ("shrink_to_fit", 0) => {
                m.shrink_to_fit();
                "()".into()
            }
            ("with_capacity", 1) => {
                let old = std::mem::replace(m, new_map());
                drop(old);
                *m = HashMap::with_capacity_and_hasher_in(n(0) as usize, IdBuild, GAlloc);
                "()".into()
            }
            ("nop", 0) => "()".into(),
            // bulk build steps: `fill n seed idbase` inserts n pseudo-random keys, `unfill n seed stride`
            // removes every stride-th of them again (tombstones in large tables)
            ("fill", 3) => {
                for j in 0..n(0) {
                    let r = m.insert(K::new(fill_key(n(1), j), n(2) + 2 * j), V::new(n(2) + 2 * j + 1, j));
                    g_quiet();
                    drop(r);
                    g_loud();
                }
                "()".into()
            }
            ("unfill", 3) => {
                for j in 0..n(0) {
                    if j % n(2).max(1) == 0 {
                        let r = m.remove(&PQ(fill_key(n(1), j)));
                        g_quiet();
                        drop(r);
                        g_loud();
                    }
                }
                "()".into()
            }
            ("split", 1) => {
                let tree = parse_tree(a[0]);
                let leaves = m.verif_split_leaves(&mut |p| tree.decide(p));
                fmt_leaves(&leaves)
            }
            _ => return None,
        })
    }

    /// Real rayon operations. `Ok(())` = all direct oracles passed.
    fn run_rayon(&mut self, tgt: &str, name: &str, a: &[&str]) -> Option<Result<(), String>> {
        let threads: usize = a.first().and_then(|s| s.parse().ok()).unwrap_or(2);
        let arg_u = |i: usize| -> u64 { a.get(i).and_then(|s| s.parse().ok()).unwrap_or(u64::MAX) };
        let me = contents(self.get(tgt));
        let ot = contents(self.get(if tgt == "a" { "b" } else { "a" }));
        let stored: Vec<(u64, u64)> = me.iter().map(|e| (e.2, e.3)).collect();
        let p = pool(threads);
        macro_rules! target {
            () => {
                if tgt == "a" {
                    self.a.as_mut().unwrap()
                } else {
                    self.b.as_mut().unwrap()
                }
            };
        }
        macro_rules! check {
            ($cond:expr, $($msg:tt)*) => {
                if !$cond {
                    return Some(Err(format!($($msg)*)));
                }
            };
        }
        fn sorted<T: Ord>(mut v: Vec<T>) -> Vec<T> {
            v.sort();
            v
        }
        let r: Result<(), String> = match name {
            // ---------------------------------------------------------------- borrowing iterators
            "par_iter" | "par_keys" | "par_values" | "par_order" => {
                let m = self.get(tgt);
                let seq_k: Vec<u64> = m.iter().map(|(k, _)| k.id()).collect();
                let seq_v: Vec<u64> = m.iter().map(|(_, v)| v.id()).collect();
                match name {
                    "par_iter" => {
                        let got: Vec<(u64, u64)> = p.install(|| {
                            m.par_iter()
                                .map(|(k, v)| {
                                    jitter(k.id());
                                    (k.id(), v.id())
                                })
                                .collect()
                        });
                        let cnt = p.install(|| (&*m).into_par_iter().count());
                        check!(cnt == m.len(), "par_iter: count {} != len {}", cnt, m.len());
                        check!(sorted(got.clone()) == sorted(stored.clone()), "par_iter: delivered {:?}, stored {:?}", got, stored);
                    }
                    "par_keys" => {
                        let got: Vec<u64> = p.install(|| m.par_keys().map(|k| k.id()).collect());
                        check!(sorted(got.clone()) == sorted(seq_k.clone()), "par_keys: delivered {:?}, stored {:?}", got, seq_k);
                    }
                    "par_values" => {
                        let got: Vec<u64> = p.install(|| m.par_values().map(|v| v.id()).collect());
                        check!(sorted(got.clone()) == sorted(seq_v.clone()), "par_values: delivered {:?}, stored {:?}", got, seq_v);
                    }
                    _ => {
                        // rayon's ordered collect over the leaves reproduces the sequential order
                        let got: Vec<u64> = p.install(|| m.par_keys().map(|k| k.id()).collect());
                        check!(got == seq_k, "par_order: collected {:?}, sequential order {:?}", got, seq_k);
                    }
                }
                Ok(())
            }
            "par_iter_mut" | "par_values_mut" => {
                // every payload is bumped exactly once: visible in the state dump (model: v + delta)
                let m = target!();
                let seen: Mutex<Vec<u64>> = Mutex::new(Vec::new());
                if name == "par_iter_mut" {
                    p.install(|| {
                        m.par_iter_mut().for_each(|(k, v)| {
                            v.set_v(v.v() + 1);
                            seen.lock().unwrap().push(k.id());
                        })
                    });
                    let want: Vec<u64> = stored.iter().map(|c| c.0).collect();
                    check!(sorted(seen.into_inner().unwrap()) == sorted(want), "par_iter_mut: visited set differs from stored");
                } else {
                    p.install(|| {
                        m.par_values_mut().for_each(|v| {
                            v.set_v(v.v() + 3);
                            seen.lock().unwrap().push(v.id());
                        })
                    });
                    let want: Vec<u64> = stored.iter().map(|c| c.1).collect();
                    check!(sorted(seen.into_inner().unwrap()) == sorted(want), "par_values_mut: visited set differs from stored");
                }
                Ok(())
            }
            // ---------------------------------------------------------------- owning iterators on the target
            "par_drain" | "into_par_iter" => {
                let (stop, mode) = (arg_u(1), mode_of(a.get(2).copied().unwrap_or("all")));
                let before = self.get(tgt).verif_dump();
                let asz = self.get(tgt).allocation_size();
                take_events();
                let consumed = if name == "par_drain" {
                    let m = target!();
                    drive(threads, || m.par_drain(), stop, mode, ids_kv::<K, V>)
                } else {
                    let old = std::mem::replace(target!(), new_map());
                    drive(threads, move || old.into_par_iter(), stop, mode, ids_kv::<K, V>)
                };
                let evs = gt(|t| t.events.clone()).unwrap_or_default();
                if let Some(why) = ledger(name, &stored, &consumed, &evs, K::DROP, true, stop, mode) {
                    return Some(Err(why));
                }
                let m = self.get(tgt);
                let after = m.verif_dump();
                check!(m.len() == 0 && m.iter().next().is_none(), "{}: collection not empty afterwards", name);
                if name == "par_drain" && after.ctrl.iter().all(|&b| b == 0xFF) {
                    // idempotent on an all-EMPTY table: no state change, no element
                    let m2 = target!();
                    if let Err(why) = drain_again(threads, "map", || m2.par_drain()) {
                        return Some(Err(why));
                    }
                    take_events();
                }
                let m = self.get(tgt);
                if name == "par_drain" && mode == Mode::Drop && before.items == 0 {
                    // `RawParDrain::drop` = `clear()`, which returns early on an empty table
                    check!(after == before, "par_drain dropped undriven on an empty table changed it");
                } else if name == "par_drain" {
                    check!(after.bucket_mask == before.bucket_mask && m.allocation_size() == asz, "par_drain: allocation not kept");
                    check!(!evs.iter().any(|e| e.starts_with("fr") || e.starts_with("al")), "par_drain: allocator called");
                    check!(before.is_singleton || after.ctrl.iter().all(|&b| b == 0xFF), "par_drain: control bytes not reset");
                    check!(
                        before.is_singleton || after.growth_left == hashbrown::verif::bucket_mask_to_capacity(after.bucket_mask),
                        "par_drain: growth_left not restored"
                    );
                } else {
                    let frees = evs.iter().filter(|e| e.starts_with("fr")).count();
                    check!(frees == if before.is_singleton { 0 } else { 1 }, "into_par_iter: {} deallocations", frees);
                }
                Ok(())
            }
            // ---------------------------------------------------------------- the same through sets and tables (scratch)
            "s_par_iter" | "s_par_drain" | "s_into_par_iter" | "t_par_iter" | "t_par_iter_mut" | "t_par_drain"
            | "t_into_par_iter" | "t_split" => {
                let (stop, mode) = (arg_u(1), mode_of(a.get(2).copied().unwrap_or("all")));
                g_quiet();
                let mut s = self.scratch_set(&me);
                let mut t = self.scratch_table(&me);
                g_loud();
                let s_ids: Vec<(u64, u64)> = s.iter().map(|k| (k.id(), 0)).collect();
                let t_ids: Vec<(u64, u64)> = t.iter().map(|e| (e.0.id(), e.1.id())).collect();
                take_events();
                let res = (|| -> Result<(), String> {
                    match name {
                        "s_par_iter" => {
                            let got: Vec<(u64, u64)> = p.install(|| s.par_iter().map(|k| (k.id(), 0)).collect());
                            if got != s_ids {
                                return Err(format!("set par_iter: collected {:?}, sequential {:?}", got, s_ids));
                            }
                        }
                        "t_par_iter" => {
                            let got: Vec<(u64, u64)> = p.install(|| t.par_iter().map(|e| (e.0.id(), e.1.id())).collect());
                            if got != t_ids {
                                return Err(format!("table par_iter: collected {:?}, sequential {:?}", got, t_ids));
                            }
                        }
                        "t_par_iter_mut" => {
                            p.install(|| t.par_iter_mut().for_each(|e| e.1.set_v(e.1.v() + 1)));
                            let got: Vec<u64> = sorted(t.iter().map(|e| e.1.v()).collect());
                            let want: Vec<u64> = sorted(me.iter().map(|e| e.4 + 1).collect());
                            if got != want {
                                return Err("table par_iter_mut: payloads not bumped exactly once".into());
                            }
                        }
                        "t_split" => {
                            let tree = parse_tree(a.get(1).copied().unwrap_or("L"));
                            let leaves = t.verif_split_leaves(&mut |p| tree.decide(p));
                            let flat: Vec<usize> = leaves.iter().flatten().copied().collect();
                            let want = full_buckets(&t.verif_dump());
                            if flat != want {
                                return Err(format!("table split {}: leaves {:?}, full buckets {:?}", tree.show(), leaves, want));
                            }
                        }
                        "s_par_drain" | "s_into_par_iter" => {
                            let consumed = if name == "s_par_drain" {
                                let c = drive(threads, || s.par_drain(), stop, mode, ids_k::<K>);
                                if s.len() != 0 || s.iter().next().is_some() {
                                    return Err("set par_drain: not empty afterwards".into());
                                }
                                drain_again(threads, "set", || s.par_drain())?;
                                c
                            } else {
                                let old = std::mem::replace(&mut s, HashSet::with_hasher_in(IdBuild, GAlloc));
                                drive(threads, move || old.into_par_iter(), stop, mode, ids_k::<K>)
                            };
                            let evs = gt(|t| t.events.clone()).unwrap_or_default();
                            if let Some(why) = ledger(name, &s_ids, &consumed, &evs, K::DROP, false, stop, mode) {
                                return Err(why);
                            }
                        }
                        _ => {
                            let consumed = if name == "t_par_drain" {
                                let c = drive(threads, || t.par_drain(), stop, mode, ids_kv::<K, V>);
                                if t.len() != 0 || t.iter().next().is_some() {
                                    return Err("table par_drain: not empty afterwards".into());
                                }
                                drain_again(threads, "table", || t.par_drain())?;
                                c
                            } else {
                                let old = std::mem::replace(&mut t, HashTable::new_in(GAlloc));
                                drive(threads, move || old.into_par_iter(), stop, mode, ids_kv::<K, V>)
                            };
                            let evs = gt(|t| t.events.clone()).unwrap_or_default();
                            if let Some(why) = ledger(name, &t_ids, &consumed, &evs, K::DROP, true, stop, mode) {
                                return Err(why);
                            }
                        }
                    }
                    Ok(())
                })();
                drop(s);
                drop(t);
                res
            }
            // ---------------------------------------------------------------- par_extend / from_par_iter
            "par_extend" | "par_extend_from" | "from_par_iter" => {
                g_quiet();
                let mut m1 = self.scratch_map(&me);
                let mut m2 = self.scratch_map(&me);
                g_loud();
                // items: explicit `k:v` pairs, or the other collection's elements
                let items: Vec<(u64, u64)> = if name == "par_extend_from" {
                    ot.iter().map(|e| (e.1, e.4)).collect()
                } else {
                    a[1..].iter().filter_map(|s| s.split_once(':')).map(|(k, v)| (k.parse().unwrap(), v.parse().unwrap())).collect()
                };
                let mut reference: BTreeMap<u64, u64> = me.iter().map(|e| (e.1, e.4)).collect();
                if name == "from_par_iter" {
                    reference.clear();
                }
                for &(k, v) in &items {
                    reference.insert(k, v);
                }
                let mk = |this: &mut Self| -> Vec<(K, V)> {
                    items.iter().map(|&(k, v)| (K::new(k, this.sid()), V::new(this.sid(), v))).collect()
                };
                let (i1, i2) = (mk(self), mk(self));
                let as_map = |it: &mut dyn Iterator<Item = (u64, u64)>| -> BTreeMap<u64, u64> { it.collect() };
                let res = match name {
                    "par_extend" => {
                        p.install(|| m1.par_extend(i1));
                        m2.extend(i2);
                        Ok(())
                    }
                    "par_extend_from" => {
                        // source = a hashbrown parallel iterator (ordered collect over the split leaves)
                        g_quiet();
                        let src1: PM<K, V> = {
                            let mut s = new_map();
                            s.extend(i1);
                            s
                        };
                        let src2: PM<K, V> = {
                            let mut s = new_map();
                            s.extend(i2);
                            s
                        };
                        g_loud();
                        p.install(|| m1.par_extend(src1));
                        m2.extend(src2);
                        Ok(())
                    }
                    _ => {
                        // sets: `from_par_iter` and `par_extend` (implemented for the global allocator only)
                        let keys = |this: &mut Self| -> Vec<K> { items.iter().map(|&(k, _)| K::new(k, this.sid())).collect() };
                        let (k1, k2, k3, k4) = (keys(self), keys(self), keys(self), keys(self));
                        let mut hs1: HashSet<K, IdBuild> = p.install(|| HashSet::from_par_iter(k1));
                        let mut hs2: HashSet<K, IdBuild> = HashSet::from_iter(k2);
                        let half = k3.len() / 2;
                        hs1.retain(|k| k.k() % 3 != 0);
                        hs2.retain(|k| k.k() % 3 != 0);
                        p.install(|| hs1.par_extend(k3.into_iter().skip(half).collect::<Vec<_>>()));
                        hs2.extend(k4.into_iter().skip(half));
                        let s1: BTreeSet<u64> = hs1.iter().map(|k| k.k()).collect();
                        let s2: BTreeSet<u64> = hs2.iter().map(|k| k.k()).collect();
                        if s1 != s2 || s1.len() != hs1.len() {
                            return Some(Err(format!("set from_par_iter/par_extend: {:?}, sequential {:?}", s1, s2)));
                        }
                        drop(hs1);
                        drop(hs2);
                        let f1: HashMap<K, V, IdBuild> = p.install(|| HashMap::from_par_iter(i1));
                        let f2: HashMap<K, V, IdBuild> = HashMap::from_iter(i2);
                        let c1 = as_map(&mut f1.iter().map(|(k, v)| (k.k(), v.v())));
                        let c2 = as_map(&mut f2.iter().map(|(k, v)| (k.k(), v.v())));
                        if c1 != c2 || c1 != reference || f1.len() != c1.len() {
                            Err(format!("from_par_iter: {:?}, sequential {:?}, reference {:?}", c1, c2, reference))
                        } else {
                            Ok(())
                        }
                    }
                };
                let c1 = as_map(&mut m1.iter().map(|(k, v)| (k.k(), v.v())));
                let c2 = as_map(&mut m2.iter().map(|(k, v)| (k.k(), v.v())));
                let r2 = if name != "from_par_iter" && (c1 != c2 || c1 != reference || m1.len() != c1.len()) {
                    Err(format!("{}: {:?}, sequential {:?}, reference {:?}", name, c1, c2, reference))
                } else if let Some(why) = inv_oracle(&m1.verif_dump()) {
                    Err(format!("{}: {}", name, why))
                } else {
                    Ok(())
                };
                drop(m1);
                drop(m2);
                res.and(r2)
            }
            // ---------------------------------------------------------------- par_eq and the set algebra
            "par_eq" => {
                let (ma, mb) = (self.get(tgt), self.get(if tgt == "a" { "b" } else { "a" }));
                let ra: BTreeMap<u64, u64> = me.iter().map(|e| (e.1, e.4)).collect();
                let rb: BTreeMap<u64, u64> = ot.iter().map(|e| (e.1, e.4)).collect();
                let got = p.install(|| ma.par_eq(mb));
                let seq = *ma == *mb;
                check!(got == seq && got == (ra == rb), "par_eq: {} sequential {} reference {}", got, seq, ra == rb);
                // the same object on both sides
                let (got_s, seq_s) = (p.install(|| ma.par_eq(ma)), *ma == *ma);
                check!(got_s == seq_s, "par_eq(self, self): {} sequential {}", got_s, seq_s);
                // values whose `==` is not reflexive (NaN): par_eq must still agree with `==`, also on one object
                let fm: hashbrown::HashMap<u64, f64> =
                    me.iter().map(|e| (e.1, if e.4 % 3 == 0 { f64::NAN } else { e.4 as f64 })).collect();
                let fc = fm.clone();
                let (g1, s1) = (p.install(|| fm.par_eq(&fm)), fm == fm);
                let (g2, s2) = (p.install(|| fm.par_eq(&fc)), fm == fc);
                check!(g1 == s1 && g2 == s2, "par_eq with non-reflexive values: self {} (sequential {}), clone {} (sequential {})", g1, s1, g2, s2);
                Ok(())
            }
            "par_union" | "par_intersection" | "par_difference" | "par_symmetric_difference" | "par_is_subset"
            | "par_is_superset" | "par_is_disjoint" | "s_par_eq" => {
                g_quiet();
                let sa = self.scratch_set(&me);
                let sb = self.scratch_set(&ot);
                g_loud();
                let ra: BTreeSet<u64> = me.iter().map(|e| e.1).collect();
                let rb: BTreeSet<u64> = ot.iter().map(|e| e.1).collect();
                let ks = |v: Vec<&K>| -> Vec<u64> { sorted(v.into_iter().map(|k| k.k()).collect()) };
                let res = (|| -> Result<(), String> {
                    let (got, seq, want): (String, String, String) = match name {
                        "par_union" => (
                            format!("{:?}", ks(p.install(|| sa.par_union(&sb).collect()))),
                            format!("{:?}", ks(sa.union(&sb).collect())),
                            format!("{:?}", ra.union(&rb).copied().collect::<Vec<_>>()),
                        ),
                        "par_intersection" => (
                            format!("{:?}", ks(p.install(|| sa.par_intersection(&sb).collect()))),
                            format!("{:?}", ks(sa.intersection(&sb).collect())),
                            format!("{:?}", ra.intersection(&rb).copied().collect::<Vec<_>>()),
                        ),
                        "par_difference" => (
                            format!("{:?}", ks(p.install(|| sa.par_difference(&sb).collect()))),
                            format!("{:?}", ks(sa.difference(&sb).collect())),
                            format!("{:?}", ra.difference(&rb).copied().collect::<Vec<_>>()),
                        ),
                        "par_symmetric_difference" => (
                            format!("{:?}", ks(p.install(|| sa.par_symmetric_difference(&sb).collect()))),
                            format!("{:?}", ks(sa.symmetric_difference(&sb).collect())),
                            format!("{:?}", ra.symmetric_difference(&rb).copied().collect::<Vec<_>>()),
                        ),
                        "par_is_subset" => (
                            p.install(|| sa.par_is_subset(&sb)).to_string(),
                            sa.is_subset(&sb).to_string(),
                            ra.is_subset(&rb).to_string(),
                        ),
                        "par_is_superset" => (
                            p.install(|| sa.par_is_superset(&sb)).to_string(),
                            sa.is_superset(&sb).to_string(),
                            ra.is_superset(&rb).to_string(),
                        ),
                        "par_is_disjoint" => (
                            p.install(|| sa.par_is_disjoint(&sb)).to_string(),
                            sa.is_disjoint(&sb).to_string(),
                            ra.is_disjoint(&rb).to_string(),
                        ),
                        _ => (p.install(|| sa.par_eq(&sb)).to_string(), (sa == sb).to_string(), (ra == rb).to_string()),
                    };
                    if got != seq || got != want {
                        return Err(format!("{}: parallel {} sequential {} reference {}", name, got, seq, want));
                    }
                    Ok(())
                })();
                drop(sa);
                drop(sb);
                res
            }
            _ => return None,
        };
        Some(r)
    }
}

const TARGET_MUTATING: &[&str] = &["par_drain", "into_par_iter"];

impl<K: PKey, V: PVal> Runner for ParRunner<K, V> {
    fn layout(&self) -> (usize, usize, bool, bool) {
        let (size, _) = hashbrown::verif::table_layout_new::<(K, V)>();
        (size, std::mem::align_of::<(K, V)>(), K::DROP, true)
    }
    fn op(&mut self, tgt: &str, name: &str, args: &[&str]) -> String {
        enter();
        g_loud();
        take_events();
        let snap = gt(|t| ([t.hc, t.ec, t.cc, t.pc, t.ac, t.dc], t.live_blocks.len())).unwrap();
        let mut rayon_op = false;
        let ret = match catch_unwind(AssertUnwindSafe(|| {
            if let Some(s) = self.run_plain(tgt, name, args) {
                return s;
            }
            rayon_op = true;
            match self.run_rayon(tgt, name, args) {
                Some(Ok(())) => "ok".to_string(),
                Some(Err(why)) => format!("ORACLE-PAR({})", why.replace(' ', "_")),
                None => format!("bad-op {}", name),
            }
        })) {
            Ok(s) => s,
            Err(p) => panic_class(p),
        };
        g_quiet();
        let mut ret = ret;
        if rayon_op {
            // schedule-dependent bookkeeping is not part of the observation: call counters are
            // restored, destructor events are judged by the ledger above, scratch allocations must be gone
            let keep_alloc = TARGET_MUTATING.contains(&name);
            let leaked = gt(|t| {
                let [hc, ec, cc, pc, ac, dc] = snap.0;
                t.hc = hc;
                t.ec = ec;
                t.cc = cc;
                t.pc = pc;
                t.ac = ac;
                t.dc = dc;
                t.returned.clear();
                t.events.retain(|e| keep_alloc && (e.starts_with("al") || e.starts_with("fr")));
                !keep_alloc && t.live_blocks.len() != snap.1
            })
            .unwrap();
            if leaked {
                ret.push_str(" ORACLE-PAR(scratch_collection_leaked_or_freed_a_foreign_block)");
            }
        } else {
            // the model prints value-object drops only for coll=map
            gt(|t| {
                t.events.retain(|e| !e.starts_with("dv"));
                t.returned.clear();
            });
        }
        if let Some(e) = gt(|t| t.alloc_errors.first().cloned()).unwrap() {
            ret.push_str(&format!(" ORACLE-PAR(alloc:{})", e.replace(' ', "_")));
            gt(|t| t.alloc_errors.clear());
        }
        for (w, t) in [("", tgt), ("other:", if tgt == "a" { "b" } else { "a" })] {
            if let Some(why) = inv_oracle(&self.get(t).verif_dump()) {
                ret.push_str(&format!(" ORACLE-INV({}{})", w, why.replace(' ', "_")));
            }
        }
        let st = state_of(self.get(tgt));
        leave();
        format!("{} ; {} ; {} ; {}", ret, st, tape::take_events(), tape::counters())
    }
    fn dump(&self, tgt: &str) -> Dump {
        self.get(tgt).verif_dump()
    }
    fn keys(&self, tgt: &str) -> Vec<u64> {
        contents(self.get(tgt)).into_iter().map(|e| e.1).collect()
    }
    fn finish(&mut self) -> Vec<String> {
        enter();
        g_quiet();
        self.a = None;
        self.b = None;
        leave();
        tape::with(|t| {
            let mut v = std::mem::take(&mut t.alloc_errors);
            let mut leaks: Vec<String> =
                t.live_blocks.drain().map(|(_, (s, a))| format!("leaked block {}/{}", s, a)).collect();
            leaks.sort();
            v.extend(leaks);
            v
        })
    }
}

pub fn make(drop: bool, _lay: &str) -> Box<dyn Runner> {
    if drop {
        Box::new(ParRunner::<PKD, PVD>::new())
    } else {
        Box::new(ParRunner::<PKC, PVC>::new())
    }
}

// ------------------------------------------------------------------ generator (profile `par`)

#[derive(Default)]
struct PGen {
    queue: VecDeque<String>,
    pattern: u64,
    cap: u64,
    stage: u32,
    mirror: bool,
    span: u64,
}

thread_local! {
    static PGEN: std::cell::RefCell<PGen> = std::cell::RefCell::new(PGen::default());
}

/// Key `j` of the bulk op `fill n seed ..`.
pub fn fill_key(seed: u64, j: u64) -> u64 {
    5_000_000 + mix3(seed, j, 7) % (1 << 30)
}

fn default_hash(k: u64) -> u64 {
    mix3(0x5eed, 0, k)
}

/// A key outside every plan whose default hash starts probing at bucket `pos` (`h1 = hash & mask`).
fn key_at(g: &mut Gen, mask: u64, pos: u64) -> u64 {
    let mut k = 1_000_000 + g.rng.below(1 << 20) * 4096;
    loop {
        if default_hash(k) & mask == pos & mask {
            return k;
        }
        k += 1;
    }
}

pub fn random_tree(g: &mut Gen) -> String {
    fn spine(d: u64, left: bool) -> Tree {
        if d == 0 {
            Tree::L
        } else if left {
            Tree::N(Box::new(spine(d - 1, left)), Box::new(Tree::L))
        } else {
            Tree::N(Box::new(Tree::L), Box::new(spine(d - 1, left)))
        }
    }
    fn full(d: u64) -> Tree {
        if d == 0 {
            Tree::L
        } else {
            Tree::N(Box::new(full(d - 1)), Box::new(full(d - 1)))
        }
    }
    fn rnd(g: &mut Gen, d: u64, num: u64) -> Tree {
        if d == 0 || !g.rng.chance(num, 10) {
            Tree::L
        } else {
            Tree::N(Box::new(rnd(g, d - 1, num)), Box::new(rnd(g, d - 1, num)))
        }
    }
    let d = g.rng.below(7);
    match g.rng.below(6) {
        0 => spine(d, true),
        1 => spine(d, false),
        2 => full(d.min(6)),
        3 => rnd(g, 6, 9),
        4 => rnd(g, 6, 7),
        _ => rnd(g, 6, 5),
    }
    .show()
}

const CAPS: &[u64] = &[0, 1, 3, 4, 7, 8, 14, 15, 28, 29, 56, 57, 112, 113, 200, 224, 225, 448, 449, 900, 1792];
const THREADS: &[u64] = &[1, 2, 3, 4, 7, 8, 16, 33, 64];

/// Next op line of the `par` profile. Stage 0 picks an occupancy pattern and a size class, stage 1
/// builds it (knowing the real bucket count), stage 2 mixes observations with a few mutations.
pub fn next_op(g: &mut Gen, r: &dyn Runner) -> String {
    PGEN.with(|st| {
        let mut st = st.borrow_mut();
        if g.phase == 0 {
            *st = PGen::default();
            g.phase = 1;
            st.pattern = g.rng.below(8);
            st.cap = *g.rng.pick(CAPS);
            st.mirror = g.rng.chance(1, 2);
            st.span = 2 * st.cap.max(2);
            return format!("a with_capacity {}", st.cap);
        }
        if let Some(op) = st.queue.pop_front() {
            return op;
        }
        if st.stage == 0 {
            st.stage = 1;
            let d = r.dump("a");
            let (n, mask) = ((d.bucket_mask + 1) as u64, d.bucket_mask as u64);
            let cap = hashbrown::verif::bucket_mask_to_capacity(d.bucket_mask) as u64;
            let w = hashbrown::verif::GROUP_WIDTH as u64;
            let ins = |g: &mut Gen, st: &mut PGen, k: u64| {
                let op = g.insert(k);
                st.queue.push_back(format!("a {}", op));
            };
            if !d.is_singleton {
                match st.pattern {
                    0 => {} // empty, allocated
                    1 => {
                        let k = key_at(g, mask, 0);
                        ins(g, &mut st, k)
                    }
                    2 => {
                        let k = key_at(g, mask, n - 1);
                        ins(g, &mut st, k)
                    }
                    3 => {
                        // both sides of every group boundary, first and last bucket
                        let mut ps = vec![0, n - 1];
                        let mut b = w;
                        while b < n {
                            ps.extend([b - 1, b, b + 1]);
                            b += w * (1 + g.rng.below(3));
                        }
                        for p in ps.into_iter().take(cap as usize) {
                            let k = key_at(g, mask, p);
                            ins(g, &mut st, k);
                        }
                    }
                    4 => {
                        // full to capacity
                        let base = g.next_id;
                        g.next_id += 2 * cap;
                        st.queue.push_back(format!("a fill {} {} {}", cap, g.rng.below(1 << 20), base));
                    }
                    5 => {
                        // one group completely full, the rest empty (tables with at least two groups)
                        let base = if n > w { w * g.rng.below(n / w) } else { 0 };
                        for j in 0..w.min(cap) {
                            let k = key_at(g, mask, base + j);
                            ins(g, &mut st, k);
                        }
                    }
                    6 if cap > 40 => {
                        // bulk random fill, then tombstones
                        let m = 1 + g.rng.below(cap);
                        let (seed, base) = (g.rng.below(1 << 20), g.next_id);
                        g.next_id += 2 * m;
                        st.queue.push_back(format!("a fill {} {} {}", m, seed, base));
                        st.queue.push_back(format!("a unfill {} {} {}", m, seed, 1 + g.rng.below(4)));
                    }
                    _ => {
                        // random fill from the planned universe (clustered hashes), then tombstones
                        let m = g.rng.below(cap.min(60) + 1);
                        let mut ks = Vec::new();
                        for _ in 0..m {
                            let k = g.rng.below(st.span);
                            ks.push(k);
                            ins(g, &mut st, k);
                        }
                        for k in ks {
                            if g.rng.chance(1, 3) {
                                st.queue.push_back(format!("a remove {}", k));
                            }
                        }
                    }
                }
            }
            // the other collection: a partial copy (set algebra, par_eq)
            if st.mirror {
                let ops: Vec<String> = st.queue.iter().cloned().collect();
                for op in ops {
                    let toks: Vec<&str> = op.split_whitespace().collect();
                    if toks[1] == "insert" && !g.rng.chance(1, 8) {
                        let (kid, vid) = (g.id(), g.id());
                        st.queue.push_back(format!("b insert {} {} {} {}", toks[2], kid, vid, toks[5]));
                    } else if toks[1] == "remove" && !g.rng.chance(1, 8) {
                        st.queue.push_back(format!("b remove {}", toks[2]));
                    } else if toks[1] == "fill" {
                        let n: u64 = toks[2].parse().unwrap();
                        let n2 = n - g.rng.below(n.min(3) + 1).min(n);
                        let base = g.next_id;
                        g.next_id += 2 * n2;
                        st.queue.push_back(format!("b fill {} {} {}", n2, toks[3], base));
                    } else if toks[1] == "unfill" && g.rng.chance(7, 8) {
                        st.queue.push_back(format!("b {} {} {} {}", toks[1], toks[2], toks[3], toks[4]));
                    }
                }
            }
            st.queue.push_back("a nop".into());
            return st.queue.pop_front().unwrap();
        }
        // ---- stage 2: observations
        let tgt = if g.rng.chance(1, 6) { "b" } else { "a" };
        let th = *g.rng.pick(THREADS);
        let len = r.dump(tgt).items as u64;
        let stop = match g.rng.below(6) {
            0 => 1,
            1 => 2,
            2 => len.max(1),
            3 => len + 1,
            4 => 1 + g.rng.below(len + 1),
            _ => 1 + len / 2,
        };
        let mode = *g.rng.pick(&["all", "collect", "collect", "tfe", "tfe", "find", "find", "drop", "panic"]);
        let x = g.rng.below(1000);
        if x < 70 {
            let k = if g.rng.chance(1, 2) { g.rng.below(st.span) } else { 5_000_000 + g.rng.below(1 << 30) };
            let op = g.insert(k);
            if st.mirror && tgt == "a" && g.rng.chance(3, 4) {
                let toks: Vec<&str> = op.split_whitespace().collect();
                let (kid, vid) = (g.id(), g.id());
                st.queue.push_back(format!("b insert {} {} {} {}", toks[1], kid, vid, toks[4]));
            }
            format!("{} {}", tgt, op)
        } else if x < 110 {
            match g.present_key(r, tgt) {
                Some(k) => {
                    if st.mirror && tgt == "a" && g.rng.chance(3, 4) {
                        st.queue.push_back(format!("b remove {}", k));
                    }
                    format!("{} remove {}", tgt, k)
                }
                None => format!("{} get {}", tgt, g.rng.below(st.span)),
            }
        } else if x < 120 {
            format!("{} reserve {}", tgt, g.rng.below(2 * (len + 8)))
        } else if x < 125 {
            format!("{} shrink_to_fit", tgt)
        } else if x < 128 {
            format!("{} clear", tgt)
        } else if x < 300 {
            format!("{} split {}", tgt, random_tree(g))
        } else if x < 350 {
            format!("{} t_split {} {}", tgt, th, random_tree(g))
        } else if x < 560 {
            let name = *g.rng.pick(&[
                "par_iter", "par_keys", "par_values", "par_order", "par_iter_mut", "par_values_mut", "s_par_iter",
                "t_par_iter", "t_par_iter_mut",
            ]);
            format!("{} {} {}", tgt, name, th)
        } else if x < 700 {
            let name = *g.rng.pick(&["s_par_drain", "s_into_par_iter", "t_par_drain", "t_into_par_iter"]);
            format!("{} {} {} {} {}", tgt, name, th, stop, mode)
        } else if x < 730 {
            // the target itself is drained; refill follows through ordinary inserts
            let name = *g.rng.pick(&["par_drain", "par_drain", "par_drain", "into_par_iter"]);
            if tgt == "a" && g.rng.chance(2, 3) {
                // start over with a new occupancy pattern afterwards
                g.phase = 0;
            } else {
                for _ in 0..g.rng.below(6) {
                    let k = g.rng.below(st.span);
                    let op = g.insert(k);
                    st.queue.push_back(format!("{} {}", tgt, op));
                }
            }
            format!("{} {} {} {} {}", tgt, name, th, stop, mode)
        } else if x < 800 {
            let n = g.rng.below(40);
            let mut s = format!("{} {} {}", tgt, g.rng.pick(&["par_extend", "from_par_iter"]), th);
            for _ in 0..n {
                s.push_str(&format!(" {}:{}", g.rng.below(st.span + 4), g.rng.below(1000)));
            }
            s
        } else if x < 830 {
            format!("{} par_extend_from {}", tgt, th)
        } else if x < 880 {
            format!("{} par_eq {}", tgt, th)
        } else {
            let name = *g.rng.pick(&[
                "par_union", "par_intersection", "par_difference", "par_symmetric_difference", "par_is_subset",
                "par_is_superset", "par_is_disjoint", "s_par_eq",
            ]);
            format!("{} {} {}", tgt, name, th)
        }
    })
}
