//! Oracle-only scenarios for instantiations the line-protocol model does not cover (they run on the real
//! collections and are judged by mathematics alone; nothing here is compared with the Lean model):
//!
//! * `xhash`: two sets / maps whose hashers are seeded DIFFERENTLY (the protocol's collections share one hash
//!   plan) — every binary set operation, operator form, assigning form, predicate, `==`, `extend`, `clone_from`
//!   against `BTreeSet` / `BTreeMap`, followed by look-ups of the whole universe and further growth;
//! * `zst`: `HashMap<(), ()>`, `HashSet<()>`, `HashMap<(), u64>` (zero-sized element resp. zero-sized key) with
//!   many capacities and hasher seeds — at most one element, so the reference is an `Option`;
//! * `zst-drop`: zero-sized elements WITH drop glue (`HashSet<Tok>`, `HashMap<Tok, ()>`, `HashMap<(), Tok>`,
//!   `HashTable<Tok>`): tokens made minus tokens dropped equals tokens stored, at every step and at the end;
//! * `long-probe`: tables of up to 16384 buckets filled to capacity with ONE hash (probe sequence coverage);
//! * `zst-align`: zero-sized elements of alignment 8 / 64: every reference handed out is aligned for its type.
//!
//! One line per scenario: `scn <kind>-<seed>-<i> [ORACLE-XHASH(..)|ORACLE-ZST(..)]`. A scenario is replayed by
//! running `hbv extras <seed> <count> <prefix>` again (everything derives from the seed).
use crate::tape::{splitmix64, Rng};
use hashbrown::{HashMap, HashSet};
use std::collections::{BTreeMap, BTreeSet};
use std::hash::{BuildHasher, Hasher};

#[derive(Clone, Copy, Debug)]
pub struct Seeded(pub u64);
pub struct SeededHasher(u64, u64);
impl Hasher for SeededHasher {
    fn finish(&self) -> u64 {
        splitmix64(self.1 ^ self.0)
    }
    fn write(&mut self, bytes: &[u8]) {
        for &b in bytes {
            self.1 = self.1.rotate_left(8) ^ u64::from(b);
        }
    }
    fn write_u64(&mut self, n: u64) {
        self.1 ^= n;
    }
}
impl BuildHasher for Seeded {
    type Hasher = SeededHasher;
    fn build_hasher(&self) -> SeededHasher {
        SeededHasher(self.0, 0)
    }
}

type S = HashSet<u64, Seeded>;
type M = HashMap<u64, u64, Seeded>;

fn build_set(rng: &mut Rng, seed: u64, universe: u64) -> (S, BTreeSet<u64>) {
    let mut s: S = HashSet::with_hasher(Seeded(seed));
    let mut r = BTreeSet::new();
    let steps = rng.below(260);
    let heavy = rng.chance(1, 3);
    for _ in 0..steps {
        let k = rng.below(universe);
        if rng.chance(if heavy { 3 } else { 2 }, 4) {
            s.insert(k);
            r.insert(k);
        } else {
            s.remove(&k);
            r.remove(&k);
        }
    }
    if rng.chance(1, 6) {
        s.shrink_to_fit();
    }
    (s, r)
}

fn set_is(s: &S, r: &BTreeSet<u64>, universe: u64) -> Result<(), String> {
    if s.len() != r.len() {
        return Err(format!("len {} but the mathematical result has {}", s.len(), r.len()));
    }
    let got: BTreeSet<u64> = s.iter().copied().collect();
    if got != *r || s.iter().count() != r.len() {
        return Err(format!("iteration yields {:?}, the mathematical result is {:?}", got, r));
    }
    for k in 0..universe {
        if s.contains(&k) != r.contains(&k) {
            return Err(format!("contains({}) = {} but the mathematical result says {}", k, s.contains(&k), r.contains(&k)));
        }
    }
    Ok(())
}

/// The set keeps working after the operation: grow it over the whole universe, empty it again.
fn set_usable(mut s: S, mut r: BTreeSet<u64>, universe: u64) -> Result<(), String> {
    for k in 0..universe {
        if s.insert(k) != r.insert(k) {
            return Err(format!("later insert({}) disagrees with the reference", k));
        }
    }
    set_is(&s, &r, universe)?;
    for k in 0..universe {
        if s.remove(&k) != r.remove(&k) {
            return Err(format!("later remove({}) disagrees with the reference", k));
        }
    }
    set_is(&s, &r, universe)
}

fn xhash_sets(rng: &mut Rng) -> Result<(), String> {
    let universe = *rng.pick(&[8u64, 24, 64, 200]);
    let (s1, s2) = (rng.next(), rng.next());
    let (a, ra) = build_set(rng, s1, universe);
    let sb = if rng.chance(1, 8) { s1 } else { s2 };
    let (b, rb) = build_set(rng, sb, universe);
    let math = |op: &str| -> BTreeSet<u64> {
        match op {
            "or" => ra.union(&rb).copied().collect(),
            "and" => ra.intersection(&rb).copied().collect(),
            "xor" => ra.symmetric_difference(&rb).copied().collect(),
            _ => ra.difference(&rb).copied().collect(),
        }
    };
    let lazy = |name: &str, it: &mut dyn Iterator<Item = u64>, want: BTreeSet<u64>| -> Result<(), String> {
        let v: Vec<u64> = it.collect();
        let got: BTreeSet<u64> = v.iter().copied().collect();
        if got != want || v.len() != want.len() {
            return Err(format!("{} yields {:?}, the mathematical result is {:?}", name, v, want));
        }
        Ok(())
    };
    lazy("union", &mut a.union(&b).copied(), math("or"))?;
    lazy("intersection", &mut a.intersection(&b).copied(), math("and"))?;
    lazy("symmetric_difference", &mut a.symmetric_difference(&b).copied(), math("xor"))?;
    lazy("difference", &mut a.difference(&b).copied(), math("sub"))?;
    if a.is_subset(&b) != ra.is_subset(&rb) || a.is_superset(&b) != ra.is_superset(&rb) || a.is_disjoint(&b) != ra.is_disjoint(&rb) {
        return Err("is_subset / is_superset / is_disjoint disagrees with mathematics".into());
    }
    if (a == b) != (ra == rb) || (b == a) != (ra == rb) {
        return Err("== disagrees with mathematics (or is not symmetric)".into());
    }
    // assigning forms on clones (the clone keeps the left operand's hasher)
    for op in ["or", "and", "xor", "sub"] {
        let mut x = a.clone();
        match op {
            "or" => x |= &b,
            "and" => x &= &b,
            "xor" => x ^= &b,
            _ => x -= &b,
        }
        let want = math(op);
        set_is(&x, &want, universe).map_err(|e| format!("a {}= b: {}", op, e))?;
        set_usable(x, want, universe).map_err(|e| format!("after a {}= b: {}", op, e))?;
    }
    // non-assigning operator forms (result uses a default-constructed hasher)
    let dflt = |s: &S| -> HashSet<u64, std::hash::RandomState> { s.iter().copied().collect() };
    let (da, db) = (dflt(&a), dflt(&b));
    for (op, res) in [("or", &da | &db), ("and", &da & &db), ("xor", &da ^ &db), ("sub", &da - &db)] {
        let got: BTreeSet<u64> = res.iter().copied().collect();
        if got != math(op) || res.len() != got.len() {
            return Err(format!("a {} b (operator form) = {:?}, the mathematical result is {:?}", op, got, math(op)));
        }
    }
    // extend by reference and clone_from across hashers
    let mut x = a.clone();
    x.extend(b.iter());
    set_is(&x, &math("or"), universe).map_err(|e| format!("extend(&other): {}", e))?;
    set_usable(x, math("or"), universe).map_err(|e| format!("after extend(&other): {}", e))?;
    let mut y = a.clone();
    y.clone_from(&b);
    set_is(&y, &rb, universe).map_err(|e| format!("clone_from across hashers: {}", e))?;
    set_usable(y, rb.clone(), universe).map_err(|e| format!("after clone_from across hashers: {}", e))?;
    Ok(())
}

fn xhash_maps(rng: &mut Rng) -> Result<(), String> {
    let universe = *rng.pick(&[8u64, 32, 100]);
    let mut build = |rng: &mut Rng, seed: u64| -> (M, BTreeMap<u64, u64>) {
        let mut m: M = HashMap::with_hasher(Seeded(seed));
        let mut r = BTreeMap::new();
        for _ in 0..rng.below(200) {
            let k = rng.below(universe);
            if rng.chance(2, 3) {
                let v = rng.below(3);
                m.insert(k, v);
                r.insert(k, v);
            } else {
                m.remove(&k);
                r.remove(&k);
            }
        }
        (m, r)
    };
    let (s1, s2) = (rng.next(), rng.next());
    let (a, ra) = build(rng, s1);
    let (mut b, mut rb) = build(rng, s2);
    if rng.chance(1, 3) {
        // make them equal as maps, built by different histories under different hashers
        b.clear();
        rb.clear();
        let mut ks: Vec<(&u64, &u64)> = ra.iter().collect();
        ks.reverse();
        for (k, v) in ks {
            b.insert(*k, *v);
            rb.insert(*k, *v);
        }
    }
    if (a == b) != (ra == rb) || (b == a) != (ra == rb) {
        return Err(format!("map == is {} / {} but the maps are {}equal", a == b, b == a, if ra == rb { "" } else { "not " }));
    }
    let mut x = a.clone();
    x.extend(b.iter().map(|(k, v)| (*k, *v)));
    let mut want = ra.clone();
    want.extend(rb.iter().map(|(k, v)| (*k, *v)));
    let got: BTreeMap<u64, u64> = x.iter().map(|(k, v)| (*k, *v)).collect();
    if got != want || x.len() != want.len() || (0..universe).any(|k| x.get(&k) != want.get(&k)) {
        return Err("extend across hashers disagrees with the reference map".into());
    }
    let mut y = a.clone();
    y.clone_from(&b);
    if (0..universe).any(|k| y.get(&k) != rb.get(&k)) || y.len() != rb.len() || y != b {
        return Err("clone_from across hashers disagrees with the source".into());
    }
    for k in 0..universe {
        y.insert(k, 7);
    }
    if y.len() != universe as usize || (0..universe).any(|k| y.get(&k) != Some(&7)) {
        return Err("map unusable after clone_from across hashers".into());
    }
    Ok(())
}

thread_local! {
    /// Clone calls left before `PK::clone` panics (u64::MAX = never).
    static CLONE_FUSE: std::cell::Cell<u64> = std::cell::Cell::new(u64::MAX);
}
#[derive(PartialEq, Eq, Hash, Debug, PartialOrd, Ord)]
struct PK(u64);
impl Clone for PK {
    fn clone(&self) -> Self {
        let left = CLONE_FUSE.with(|c| c.get());
        if left == 0 {
            CLONE_FUSE.with(|c| c.set(u64::MAX));
            panic!("clone fuse");
        }
        if left != u64::MAX {
            CLONE_FUSE.with(|c| c.set(left - 1));
        }
        PK(self.0)
    }
}

/// A map / set is internally consistent: every element it yields is found again, len = number yielded,
/// a fresh clone compares equal, and it keeps working.
fn map_consistent(m: &HashMap<PK, u64, Seeded>, what: &str) -> Result<(), String> {
    let keys: Vec<u64> = m.keys().map(|k| k.0).collect();
    if keys.len() != m.len() {
        return Err(format!("{}: len {} but iteration yields {}", what, m.len(), keys.len()));
    }
    for k in &keys {
        if !m.contains_key(&PK(*k)) {
            return Err(format!("{}: stored key {} is not found by a look-up", what, k));
        }
    }
    let c = m.clone();
    if c != *m || *m != c {
        return Err(format!("{}: a clone does not compare equal", what));
    }
    Ok(())
}

/// clone_from between differently seeded hashers with a `Clone` that panics part-way (any size relation).
fn xhash_clone_panic(rng: &mut Rng) -> Result<(), String> {
    let universe = 64u64;
    let mut build = |rng: &mut Rng, seed: u64, n: u64| -> HashMap<PK, u64, Seeded> {
        let mut m = HashMap::with_hasher(Seeded(seed));
        for _ in 0..n {
            let k = rng.below(universe);
            m.insert(PK(k), k);
        }
        m
    };
    let (s1, s2) = (rng.next(), rng.next());
    let na = *rng.pick(&[0u64, 3, 10, 40, 120]);
    let nb = *rng.pick(&[1u64, 3, 10, 40, 120]);
    let mut a = build(rng, s1, na);
    let b = build(rng, s2, nb);
    if rng.chance(1, 3) {
        let ks: Vec<u64> = a.keys().map(|k| k.0).collect();
        for k in ks.iter().take(ks.len() / 2) {
            a.remove(&PK(*k));
        }
    }
    let fuse = rng.below(b.len() as u64 + 1);
    CLONE_FUSE.with(|c| c.set(fuse));
    let r = std::panic::catch_unwind(std::panic::AssertUnwindSafe(|| a.clone_from(&b)));
    CLONE_FUSE.with(|c| c.set(u64::MAX));
    match r {
        Ok(()) => {
            if a != b || a.len() != b.len() {
                return Err("clone_from returned but the target differs from the source".into());
            }
        }
        Err(_) => {}
    }
    map_consistent(&a, "target after clone_from (Clone may have panicked)")?;
    for k in 0..universe {
        a.insert(PK(k), 1);
    }
    if a.len() != universe as usize {
        return Err("target unusable after clone_from".into());
    }
    map_consistent(&a, "target after refilling")?;
    // the same for sets
    let mut sa: HashSet<PK, Seeded> = HashSet::with_hasher(Seeded(s1));
    let mut sb: HashSet<PK, Seeded> = HashSet::with_hasher(Seeded(s2));
    for _ in 0..na {
        sa.insert(PK(rng.below(universe)));
    }
    for _ in 0..nb {
        sb.insert(PK(rng.below(universe)));
    }
    CLONE_FUSE.with(|c| c.set(rng.below(sb.len() as u64 + 1)));
    let _ = std::panic::catch_unwind(std::panic::AssertUnwindSafe(|| sa.clone_from(&sb)));
    CLONE_FUSE.with(|c| c.set(u64::MAX));
    let ks: Vec<u64> = sa.iter().map(|k| k.0).collect();
    if ks.len() != sa.len() || ks.iter().any(|k| !sa.contains(&PK(*k))) {
        return Err("set after clone_from (Clone may have panicked): a stored element is not found / len wrong".into());
    }
    Ok(())
}

thread_local! {
    static DROPS: std::cell::RefCell<Vec<u32>> = std::cell::RefCell::new(Vec::new());
}
/// Element with drop glue that counts its destructor runs per identity.
#[derive(PartialEq, Eq, Hash, Debug)]
struct D(usize);
impl Drop for D {
    fn drop(&mut self) {
        DROPS.with(|d| {
            let mut d = d.borrow_mut();
            if self.0 < d.len() {
                d[self.0] += 1;
            }
        });
    }
}

/// Owning iterators over maps whose key and value types differ in drop glue (droppable key + plain value and
/// vice versa), consumed through `next` for a prefix and `fold` / `for_each` / `count` / `collect` for the rest:
/// every object is destroyed exactly once, whoever ends up owning it.
fn owning_fold_mixed(rng: &mut Rng) -> Result<(), String> {
    let n = 1 + rng.below(40) as usize;
    let pre = rng.below(n as u64 + 1) as usize;
    let reset = |n: usize| DROPS.with(|d| *d.borrow_mut() = vec![0; n]);
    let verdict = |what: &str, n: usize| -> Result<(), String> {
        DROPS.with(|d| {
            let d = d.borrow();
            match d.iter().take(n).position(|&c| c != 1) {
                Some(i) => Err(format!("{}: object {} was destroyed {} times", what, i, d[i])),
                None => Ok(()),
            }
        })
    };
    for mode in 0..6 {
        reset(n);
        match mode {
            0 | 1 => {
                // droppable keys, plain values
                let m: HashMap<D, u64> = (0..n).map(|i| (D(i), i as u64)).collect();
                let mut it = m.into_keys();
                let mut held: Vec<D> = Vec::new();
                for _ in 0..pre {
                    held.extend(it.next());
                }
                if mode == 0 {
                    held = it.fold(held, |mut v, k| {
                        v.push(k);
                        v
                    });
                } else if it.count() + held.len() != n {
                    return Err("into_keys().count() disagrees with len".into());
                }
                drop(held);
                verdict(if mode == 0 { "into_keys + fold (droppable keys, plain values)" } else { "into_keys + count" }, n)?;
            }
            2 | 3 => {
                // plain keys, droppable values
                let m: HashMap<u64, D> = (0..n).map(|i| (i as u64, D(i))).collect();
                let mut it = m.into_values();
                let mut held: Vec<D> = Vec::new();
                for _ in 0..pre {
                    held.extend(it.next());
                }
                if mode == 2 {
                    it.for_each(|v| held.push(v));
                } else {
                    let s: HashSet<D> = it.collect();
                    if s.len() + held.len() != n {
                        return Err("into_values().collect() lost elements".into());
                    }
                }
                drop(held);
                verdict("into_values + for_each / collect (plain keys, droppable values)", n)?;
            }
            4 => {
                let mut m: HashMap<D, u64> = (0..n).map(|i| (D(i), 0)).collect();
                let mut held: Vec<D> = Vec::new();
                {
                    let mut d = m.drain();
                    for _ in 0..pre {
                        held.extend(d.next().map(|p| p.0));
                    }
                    d.for_each(|(k, _)| held.push(k));
                }
                if !m.is_empty() {
                    return Err("drain + for_each left elements behind".into());
                }
                drop(held);
                drop(m);
                verdict("drain + for_each (droppable keys, plain values)", n)?;
            }
            _ => {
                let st: HashSet<D> = (0..n).map(D).collect();
                let mut it = st.into_iter();
                let mut held: Vec<D> = Vec::new();
                for _ in 0..pre {
                    held.extend(it.next());
                }
                let dst: HashSet<D> = it.collect();
                if dst.len() + held.len() != n {
                    return Err("set into_iter().collect() lost elements".into());
                }
                drop(dst);
                drop(held);
                verdict("set into_iter + collect", n)?;
            }
        }
    }
    Ok(())
}

fn zst_one(rng: &mut Rng) -> Result<(), String> {
    let cap = *rng.pick(&[0usize, 1, 3, 4, 7, 8, 14, 15, 28, 29, 56, 100, 500, 1000]);
    let seed = rng.next();
    // ---- HashSet<()>
    let mut s: HashSet<(), Seeded> = HashSet::with_capacity_and_hasher(cap, Seeded(seed));
    let mut present = false;
    let steps = 6 + rng.below(30);
    for step in 0..steps {
        let what = rng.below(14);
        let r: Result<(), String> = (|| {
            match what {
                0 | 1 | 2 => {
                    if s.insert(()) == present {
                        return Err("insert(()) returned the wrong answer".to_string());
                    }
                    present = true;
                }
                3 => {
                    if s.remove(&()) != present {
                        return Err("remove(&()) returned the wrong answer".into());
                    }
                    present = false;
                }
                4 => {
                    let keep = rng.chance(1, 2);
                    s.retain(|_| keep);
                    present = present && keep;
                }
                5 => {
                    let take = rng.chance(1, 2);
                    let n = s.extract_if(|_| take).count();
                    if n != usize::from(present && take) {
                        return Err(format!("extract_if yielded {} elements", n));
                    }
                    present = present && !take;
                }
                6 => {
                    let n = s.drain().count();
                    if n != usize::from(present) {
                        return Err(format!("drain yielded {} elements", n));
                    }
                    present = false;
                }
                7 => {
                    s.clear();
                    present = false;
                }
                8 => s.shrink_to_fit(),
                9 => {
                    // try_reserve: Ok with room, or an error value — never a panic (C12)
                    let n = *rng.pick(&[0usize, 1, 40, usize::MAX / 2, usize::MAX]);
                    match s.try_reserve(n) {
                        Ok(()) => {
                            if (s.capacity() as u128) < s.len() as u128 + n as u128 {
                                return Err(format!("try_reserve({}) = Ok but capacity {} < len + n", n, s.capacity()));
                            }
                        }
                        Err(_) => {}
                    }
                    s.reserve(rng.below(40) as usize)
                }
                10 => {
                    let c = s.clone();
                    if c != s || c.len() != s.len() {
                        return Err("clone differs from its source".into());
                    }
                }
                11 => {
                    if s.take(&()).is_some() != present {
                        return Err("take(&()) returned the wrong answer".into());
                    }
                    present = false;
                }
                12 => {
                    if s.replace(()).is_some() != present {
                        return Err("replace(()) returned the wrong answer".into());
                    }
                    present = true;
                }
                _ => {
                    s.get_or_insert(());
                    present = true;
                }
            }
            if s.len() != usize::from(present) || s.contains(&()) != present || s.iter().count() != usize::from(present) || s.get(&()).is_some() != present {
                return Err(format!("len / contains / iter disagree with the reference (present = {})", present));
            }
            if s.capacity() < s.len() {
                return Err("capacity() < len()".into());
            }
            Ok(())
        })();
        r.map_err(|e| format!("HashSet<()> with_capacity({}) step {} (op {}): {}", cap, step, what, e))?;
    }
    // ---- HashMap<(), ()> and HashMap<(), u64>
    let mut m: HashMap<(), (), Seeded> = HashMap::with_capacity_and_hasher(cap, Seeded(seed));
    let mut mv: HashMap<(), u64, Seeded> = HashMap::with_capacity_and_hasher(cap, Seeded(seed));
    let mut val: Option<u64> = None;
    for step in 0..steps {
        let what = rng.below(9);
        let r: Result<(), String> = (|| {
            match what {
                0 | 1 | 2 => {
                    let v = rng.below(5);
                    if m.insert((), ()).is_some() != val.is_some() || mv.insert((), v) != val {
                        return Err("insert returned the wrong answer".to_string());
                    }
                    val = Some(v);
                }
                3 => {
                    if m.remove(&()).is_some() != val.is_some() || mv.remove(&()) != val {
                        return Err("remove returned the wrong answer".into());
                    }
                    val = None;
                }
                4 => {
                    let keep = rng.chance(1, 2);
                    m.retain(|_, _| keep);
                    mv.retain(|_, _| keep);
                    if !keep {
                        val = None;
                    }
                }
                5 => {
                    *mv.entry(()).or_insert(9) += 1;
                    m.entry(()).or_insert(());
                    val = Some(val.map_or(10, |v| v + 1));
                }
                6 => {
                    let n = m.drain().count();
                    let nv = mv.drain().count();
                    if n != usize::from(val.is_some()) || nv != n {
                        return Err(format!("drain yielded {} / {} elements", n, nv));
                    }
                    val = None;
                }
                7 => {
                    m.shrink_to_fit();
                    mv.shrink_to_fit();
                    let n = *rng.pick(&[0usize, 1, 40, usize::MAX / 2, usize::MAX]);
                    if let Ok(()) = m.try_reserve(n) {
                        if (m.capacity() as u128) < m.len() as u128 + n as u128 {
                            return Err(format!("HashMap<(),()>::try_reserve({}) = Ok but capacity {} < len + n", n, m.capacity()));
                        }
                    }
                    let _ = mv.try_reserve(n);
                }
                _ => {
                    let take = rng.chance(1, 2);
                    let n = m.extract_if(|_, _| take).count();
                    let nv = mv.extract_if(|_, _| take).count();
                    if n != usize::from(val.is_some() && take) || nv != n {
                        return Err(format!("extract_if yielded {} / {} elements", n, nv));
                    }
                    if take {
                        val = None;
                    }
                }
            }
            if m.len() != usize::from(val.is_some()) || m.contains_key(&()) != val.is_some() || m.iter().count() != m.len() {
                return Err(format!("HashMap<(),()>: len / contains_key / iter disagree with the reference ({:?})", val));
            }
            if mv.get(&()).copied() != val || mv.len() != m.len() || mv.values().copied().next() != val {
                return Err(format!("HashMap<(),u64>: get / len / values disagree with the reference ({:?})", val));
            }
            Ok(())
        })();
        r.map_err(|e| format!("HashMap<(),_> with_capacity({}) step {} (op {}): {}", cap, step, what, e))?;
    }
    Ok(())
}

/// Trait impls the line protocol does not call: `Default` of every iterator type (C09: "default-constructed
/// iterators are empty"), `Default` / `From<[_; N]>` / `FromIterator` / `Extend<&_>` of the collections.
fn misc(rng: &mut Rng) -> Result<(), String> {
    use hashbrown::{hash_map, hash_set, hash_table, HashTable};
    macro_rules! empty_iter {
        ($name:expr, $it:expr) => {{
            let mut it = $it;
            if it.size_hint() != (0, Some(0)) || it.len() != 0 {
                return Err(format!("default {}: size_hint {:?} len {}", $name, it.size_hint(), it.len()));
            }
            if it.next().is_some() || it.next().is_some() {
                return Err(format!("default {} yields an element", $name));
            }
            if $it.fold(0usize, |n, _| n + 1) != 0 || $it.count() != 0 {
                return Err(format!("default {}: fold / count visit something", $name));
            }
        }};
    }
    empty_iter!("hash_map::Iter", hash_map::Iter::<u64, u64>::default());
    empty_iter!("hash_map::IterMut", hash_map::IterMut::<u64, u64>::default());
    empty_iter!("hash_map::Keys", hash_map::Keys::<u64, u64>::default());
    empty_iter!("hash_map::Values", hash_map::Values::<u64, u64>::default());
    empty_iter!("hash_map::ValuesMut", hash_map::ValuesMut::<u64, u64>::default());
    empty_iter!("hash_map::IntoIter", hash_map::IntoIter::<u64, String>::default());
    empty_iter!("hash_map::IntoKeys", hash_map::IntoKeys::<u64, String>::default());
    empty_iter!("hash_map::IntoValues", hash_map::IntoValues::<u64, String>::default());
    empty_iter!("hash_set::Iter", hash_set::Iter::<u64>::default());
    empty_iter!("hash_set::IntoIter", hash_set::IntoIter::<String>::default());
    empty_iter!("hash_table::Iter", hash_table::Iter::<u64>::default());
    empty_iter!("hash_table::IterMut", hash_table::IterMut::<u64>::default());
    empty_iter!("hash_table::IntoIter", hash_table::IntoIter::<String>::default());
    if hash_table::IterHash::<u64>::default().next().is_some() || hash_table::IterHashMut::<u64>::default().next().is_some() {
        return Err("default IterHash yields an element".into());
    }
    // default-constructed collections own nothing
    let m: HashMap<u64, u64> = HashMap::default();
    let st: HashSet<u64> = HashSet::default();
    let t: HashTable<u64> = HashTable::default();
    if m.capacity() != 0 || st.capacity() != 0 || t.capacity() != 0 || m.allocation_size() != 0 || st.allocation_size() != 0 || t.allocation_size() != 0 || !m.is_empty() || !st.is_empty() || !t.is_empty() {
        return Err("default() collection is not empty / owns memory".into());
    }
    // From<[_; N]>, FromIterator, Extend by reference: last value wins, each key once
    let n = 1 + rng.below(40);
    let pairs: Vec<(u64, u64)> = (0..n).map(|i| (rng.below(12), i)).collect();
    let want: BTreeMap<u64, u64> = pairs.iter().copied().collect();
    let check_map = |name: &str, m: &HashMap<u64, u64>| -> Result<(), String> {
        let got: BTreeMap<u64, u64> = m.iter().map(|(k, v)| (*k, *v)).collect();
        if got != want || m.len() != want.len() || (0..12).any(|k| m.get(&k) != want.get(&k)) {
            return Err(format!("{} gives {:?}, the reference map is {:?}", name, got, want));
        }
        Ok(())
    };
    check_map("FromIterator", &pairs.iter().copied().collect::<HashMap<u64, u64>>())?;
    let mut e1: HashMap<u64, u64> = HashMap::new();
    e1.extend(pairs.iter());
    check_map("Extend<&(K,V)>", &e1)?;
    let mut e2: HashMap<u64, u64> = HashMap::new();
    e2.extend(pairs.iter().map(|(k, v)| (k, v)));
    check_map("Extend<(&K,&V)>", &e2)?;
    let arr = [(3u64, 1u64), (5, 2), (3, 9), (7, 4)];
    let fm: HashMap<u64, u64> = HashMap::from(arr);
    if fm.len() != 3 || fm.get(&3) != Some(&9) || fm.get(&5) != Some(&2) || fm.get(&7) != Some(&4) {
        return Err("HashMap::from([..]) disagrees with inserting the pairs in order".into());
    }
    let keys: Vec<u64> = pairs.iter().map(|p| p.0).collect();
    let wantk: BTreeSet<u64> = keys.iter().copied().collect();
    let s1: HashSet<u64> = keys.iter().copied().collect();
    let mut s2: HashSet<u64> = HashSet::new();
    s2.extend(keys.iter());
    let s3: HashSet<u64> = HashSet::from([4u64, 4, 2, 9, 2]);
    for (name, s) in [("FromIterator", &s1), ("Extend<&T>", &s2)] {
        let got: BTreeSet<u64> = s.iter().copied().collect();
        if got != wantk || s.len() != wantk.len() {
            return Err(format!("HashSet {} gives {:?}, the reference set is {:?}", name, got, wantk));
        }
    }
    if s3.len() != 3 || !s3.contains(&4) || !s3.contains(&2) || !s3.contains(&9) {
        return Err("HashSet::from([..]) disagrees with inserting the elements".into());
    }
    // extend within spare capacity from an iterator whose size_hint has a loose upper bound (filter): no allocation
    {
        let mut st: HashSet<u64> = HashSet::with_capacity(100);
        let (c0, a0) = (st.capacity(), st.allocation_size());
        st.extend((0..100_000u64).filter(|x| x % 40_000 == 7));
        if st.len() != 3 || st.capacity() != c0 || st.allocation_size() != a0 {
            return Err(format!("extend by {} keys within capacity {} changed capacity to {}", st.len(), c0, st.capacity()));
        }
        let mut mp: HashMap<u64, u64> = HashMap::with_capacity(50);
        let (c0, a0) = (mp.capacity(), mp.allocation_size());
        mp.extend((0..1_000_000u64).filter(|x| x % 300_000 == 1).map(|x| (x, x)));
        if mp.len() != 4 || mp.capacity() != c0 || mp.allocation_size() != a0 {
            return Err(format!("map extend by {} keys within capacity {} changed capacity to {}", mp.len(), c0, mp.capacity()));
        }
    }
    // get_many_mut with unsized key forms that start at the same address (prefixes of one buffer)
    let buf = "abcdefgh";
    let mut sm: HashMap<String, u64> = HashMap::new();
    for l in [1usize, 2, 3, 5, 8] {
        sm.insert(buf[..l].to_string(), l as u64);
    }
    let got = sm.get_many_mut([&buf[..2], &buf[..5], &buf[..4], &buf[..1]]);
    let lens: Vec<Option<u64>> = got.iter().map(|o| o.as_ref().map(|v| **v)).collect();
    if lens != vec![Some(2), Some(5), None, Some(1)] {
        return Err(format!("get_many_mut over prefixes of one buffer returned {:?}", lens));
    }
    let got = sm.get_many_key_value_mut([&buf[..8], &buf[..3], &buf[..7]]);
    let kv: Vec<Option<(String, u64)>> = got.iter().map(|o| o.as_ref().map(|(k, v)| ((*k).clone(), **v))).collect();
    if kv != vec![Some(("abcdefgh".to_string(), 8)), Some(("abc".to_string(), 3)), None] {
        return Err(format!("get_many_key_value_mut over prefixes of one buffer returned {:?}", kv));
    }
    // IntoIterator for references and for &mut
    let mut mm = fm.clone();
    let mut sum = 0;
    for (_, v) in &mut mm {
        *v += 1;
        sum += *v;
    }
    if sum != 9 + 2 + 4 + 3 || (&mm).into_iter().count() != 3 || (&s3).into_iter().count() != 3 {
        return Err("IntoIterator for &mut HashMap / &HashMap / &HashSet disagrees with iter_mut / iter".into());
    }
    Ok(())
}

// ---------------------------------------------------------------------------------------------------------
// zero-sized elements WITH drop glue: `HashSet<Tok>`, `HashMap<Tok, ()>`, `HashMap<(), Tok>`, `HashTable<Tok>`.
// The ledger is two thread-local counters: tokens made (new + clone) and tokens dropped; at every step
// `made - dropped` must equal the number of tokens alive (stored in the collections + held by the scenario).
thread_local! {
    static TOK_MADE: std::cell::Cell<i64> = const { std::cell::Cell::new(0) };
    static TOK_DROPPED: std::cell::Cell<i64> = const { std::cell::Cell::new(0) };
}
#[derive(PartialEq, Eq, Hash, Debug)]
struct Tok;
impl Tok {
    fn new() -> Tok {
        TOK_MADE.with(|c| c.set(c.get() + 1));
        Tok
    }
}
impl Clone for Tok {
    fn clone(&self) -> Tok {
        Tok::new()
    }
}
impl Drop for Tok {
    fn drop(&mut self) {
        TOK_DROPPED.with(|c| c.set(c.get() + 1));
    }
}
fn tok_live() -> i64 {
    TOK_MADE.with(|c| c.get()) - TOK_DROPPED.with(|c| c.get())
}

fn zst_drop_one(rng: &mut Rng) -> Result<(), String> {
    let cap = *rng.pick(&[0usize, 1, 3, 4, 7, 8, 14, 15, 28, 29, 56, 100]);
    let seed = rng.next();
    let base = tok_live();
    let r = (|| -> Result<(), String> {
        let mut s: HashSet<Tok, Seeded> = HashSet::with_capacity_and_hasher(cap, Seeded(seed));
        let mut mk: HashMap<Tok, (), Seeded> = HashMap::with_capacity_and_hasher(cap, Seeded(seed));
        let mut mv: HashMap<(), Tok, Seeded> = HashMap::with_capacity_and_hasher(cap, Seeded(seed));
        let mut t: hashbrown::HashTable<Tok> = hashbrown::HashTable::with_capacity(cap);
        let steps = 8 + rng.below(40);
        for step in 0..steps {
            let what = rng.below(26);
            match what {
                0 | 1 => {
                    s.insert(Tok::new());
                }
                2 => {
                    s.remove(&Tok::new());
                }
                3 => {
                    let _ = s.replace(Tok::new());
                }
                4 => {
                    let _ = s.take(&Tok::new());
                }
                5 => {
                    s.get_or_insert(Tok::new());
                }
                6 => {
                    let keep = rng.chance(1, 2);
                    s.retain(|_| keep);
                }
                7 => {
                    let n = s.drain().count();
                    if n > 1 {
                        return Err(format!("step {}: set drain yielded {} zero-sized elements", step, n));
                    }
                }
                8 => {
                    let c = s.clone();
                    if c.len() != s.len() {
                        return Err(format!("step {}: clone has another length", step));
                    }
                }
                9 => s.clear(),
                10 | 11 => {
                    mk.insert(Tok::new(), ());
                }
                12 => {
                    let _ = mk.remove_entry(&Tok::new());
                }
                13 => {
                    mk.entry(Tok::new()).or_insert(());
                }
                14 => {
                    let take = rng.chance(1, 2);
                    let _ = mk.extract_if(|_, _| take).count();
                }
                15 | 16 => {
                    let _ = mv.insert((), Tok::new());
                }
                17 => {
                    let _ = mv.remove(&());
                }
                18 => {
                    mv.entry(()).or_insert_with(Tok::new);
                }
                19 => {
                    let c = mv.clone();
                    mv.clone_from(&c);
                }
                20 | 21 => {
                    if t.find(0, |_| true).is_none() {
                        t.insert_unique(0, Tok::new(), |_| 0);
                    }
                }
                22 => {
                    if let Ok(e) = t.find_entry(0, |_| true) {
                        let _ = e.remove();
                    }
                }
                23 => {
                    match t.entry(0, |_| true, |_| 0) {
                        hashbrown::hash_table::Entry::Occupied(_) => {}
                        hashbrown::hash_table::Entry::Vacant(v) => {
                            v.insert(Tok::new());
                        }
                    }
                }
                24 => {
                    let c = t.clone();
                    drop(c);
                    t.shrink_to_fit(|_| 0);
                }
                _ => {
                    s.shrink_to_fit();
                    mk.reserve(rng.below(40) as usize);
                    mv.shrink_to(rng.below(20) as usize);
                }
            }
            let stored = (s.len() + mk.len() + mv.len() + t.len()) as i64;
            let live = tok_live() - base;
            if live != stored {
                return Err(format!(
                    "with_capacity({}) step {} (op {}): {} zero-sized tokens alive but {} stored (set {}, key map {}, value map {}, table {}) — {}",
                    cap, step, what, live, stored, s.len(), mk.len(), mv.len(), t.len(),
                    if live < stored { "a stored token was already dropped" } else { "a token leaked" }
                ));
            }
        }
        // leave through different doors
        match rng.below(3) {
            0 => {
                let n = s.into_iter().count() + mk.into_keys().count() + mv.into_values().count() + t.into_iter().count();
                let _ = n;
            }
            1 => {
                let _ = s.drain();
                let _ = mk.drain();
                mv.clear();
                t.clear();
            }
            _ => {}
        }
        Ok(())
    })();
    r?;
    let left = tok_live() - base;
    if left != 0 {
        return Err(format!("with_capacity({}): after everything was dropped {} zero-sized tokens are {}", cap, left.abs(), if left < 0 { "dropped twice" } else { "leaked" }));
    }
    Ok(())
}

// ---------------------------------------------------------------------------------------------------------
// zero-sized elements with an alignment above 1 (`[u64; 0]`, a `#[repr(align(64))]` unit struct): every reference
// the safe API hands out must be aligned for its type (a misaligned `&T` is undefined behaviour even for a ZST).
#[repr(align(64))]
#[derive(Clone, Copy, PartialEq, Eq, Hash, Debug, Default)]
struct Wide;

fn aligned<T>(what: &str, r: &T) -> Result<(), String> {
    let a = r as *const T as usize;
    if a == 0 || a % std::mem::align_of::<T>() != 0 {
        return Err(format!("{}: reference {:#x} handed out for a type of alignment {}", what, a, std::mem::align_of::<T>()));
    }
    Ok(())
}

fn zst_align_one(rng: &mut Rng) -> Result<(), String> {
    let cap = *rng.pick(&[0usize, 1, 3, 4, 7, 8, 14, 15, 28, 29, 56, 100]);
    let seed = rng.next();
    // HashTable: the caller chooses the hash, hence the bucket
    let mut t: hashbrown::HashTable<[u64; 0]> = hashbrown::HashTable::with_capacity(cap);
    let h = rng.next();
    aligned("HashTable::insert_unique", t.insert_unique(h, [], |_| h).get())?;
    aligned("HashTable::find", t.find(h, |_| true).ok_or("HashTable::find lost the element")?)?;
    aligned("HashTable::find_mut", t.find_mut(h, |_| true).ok_or("HashTable::find_mut lost the element")?)?;
    for r in t.iter() {
        aligned("HashTable::iter", r)?;
    }
    for r in t.iter_mut() {
        aligned("HashTable::iter_mut", r)?;
    }
    for r in t.iter_hash(h) {
        aligned("HashTable::iter_hash", r)?;
    }
    if let Ok(e) = t.find_entry(h, |_| true) {
        aligned("OccupiedEntry::get", e.get())?;
    }
    t.reserve(rng.below(64) as usize, |_| h);
    for r in t.iter() {
        aligned("HashTable::iter after reserve", r)?;
    }
    // HashMap<(), Wide> / HashMap<Wide, ()> / HashSet<[u64; 0]>
    let mut m: HashMap<(), Wide, Seeded> = HashMap::with_capacity_and_hasher(cap, Seeded(seed));
    aligned("HashMap::entry().or_insert", m.entry(()).or_insert(Wide))?;
    aligned("HashMap::get", m.get(&()).ok_or("HashMap::get lost the element")?)?;
    aligned("HashMap::get_mut", m.get_mut(&()).ok_or("HashMap::get_mut lost the element")?)?;
    for (_, v) in m.iter() {
        aligned("HashMap::iter", v)?;
    }
    for v in m.values_mut() {
        aligned("HashMap::values_mut", v)?;
    }
    let [Some(v)] = m.get_many_mut([&()]) else { return Err("get_many_mut lost the element".into()) };
    aligned("HashMap::get_many_mut", v)?;
    m.shrink_to_fit();
    aligned("HashMap::get after shrink_to_fit", m.get(&()).ok_or("lost after shrink_to_fit")?)?;
    let mut mk: HashMap<Wide, (), Seeded> = HashMap::with_capacity_and_hasher(cap, Seeded(seed ^ 1));
    mk.insert(Wide, ());
    aligned("HashMap::get_key_value", mk.get_key_value(&Wide).ok_or("get_key_value lost the element")?.0)?;
    for k in mk.keys() {
        aligned("HashMap::keys", k)?;
    }
    let mut s: HashSet<[u64; 0], Seeded> = HashSet::with_capacity_and_hasher(cap, Seeded(seed ^ 2));
    aligned("HashSet::get_or_insert", s.get_or_insert([]))?;
    aligned("HashSet::get", s.get(&[]).ok_or("HashSet::get lost the element")?)?;
    for r in s.iter() {
        aligned("HashSet::iter", r)?;
    }
    let c = s.clone();
    for r in c.iter() {
        aligned("HashSet::clone().iter", r)?;
    }
    for r in s.drain() {
        aligned("HashSet::drain", &r)?;
    }
    Ok(())
}

// ---------------------------------------------------------------------------------------------------------
// long probe sequences: a table of 4096 / 8192 / 16384 buckets filled to its capacity with elements of ONE hash —
// the probe sequence of that hash has to reach 7/8 of all groups (quadratic probing covers every group of a
// power-of-two table), every element must be found again, and an absent look-up must end at an EMPTY group.
fn long_probe_one(rng: &mut Rng) -> Result<(), String> {
    let cap = *rng.pick(&[3584usize, 7168, 7168, 14336]);
    let h = rng.next();
    let mut t: hashbrown::HashTable<u32> = hashbrown::HashTable::with_capacity(cap);
    let asz = t.allocation_size();
    for i in 0..cap as u32 {
        t.insert_unique(h, i, |_| h);
    }
    if t.allocation_size() != asz || t.len() != cap {
        return Err(format!("with_capacity({}) reallocated while being filled to its capacity", cap));
    }
    let calls = std::cell::Cell::new(0usize);
    if t.find(h, |_| { calls.set(calls.get() + 1); false }).is_some() {
        return Err("absent look-up found something".into());
    }
    // tag collisions only: at most every element once
    if calls.get() != cap {
        return Err(format!("absent look-up along a chain of {} equal hashes compared {} elements", cap, calls.get()));
    }
    if t.iter_hash(h).count() != cap {
        return Err(format!("iter_hash visits {} of {} elements with that hash", t.iter_hash(h).count(), cap));
    }
    for probe in [0u32, cap as u32 / 2, cap as u32 - 1] {
        if t.find(h, |&x| x == probe) != Some(&probe) {
            return Err(format!("element {} of the chain is not found", probe));
        }
    }
    // another hash with the same starting group and a different tag ends at once or after the chain
    let other = h ^ (1 << 63);
    if t.find(other, |_| true).is_some() {
        return Err("a hash with another tag matched".into());
    }
    Ok(())
}

pub fn run(seed: u64, count: usize, prefix: &str) {
    use std::io::Write;
    let mut ops = std::io::BufWriter::new(std::fs::File::create(format!("{}.ops", prefix)).unwrap());
    let mut real = std::io::BufWriter::new(std::fs::File::create(format!("{}.real", prefix)).unwrap());
    for i in 0..count {
        for (kind, tag) in [("xhash-sets", "XHASH"), ("xhash-maps", "XHASH"), ("zst", "ZST"), ("misc", "MISC"), ("xhash-clone-panic", "XHASH"), ("owning-fold", "MISC"), ("zst-drop", "ZST"), ("zst-align", "ZST"), ("long-probe", "MISC")] {
            if kind == "long-probe" && i % 40 != 0 {
                continue;
            }
            let mut rng = Rng::new(crate::tape::mix3(seed, i as u64, kind.len() as u64));
            let id = format!("scn extras-{}-{}-{}", kind, seed, i);
            writeln!(ops, "{}", id).unwrap();
            // a scenario that crashes or hangs the process is named by the last line of this file
            ops.flush().unwrap();
            let r = std::panic::catch_unwind(std::panic::AssertUnwindSafe(|| match kind {
                "xhash-sets" => xhash_sets(&mut rng),
                "xhash-maps" => xhash_maps(&mut rng),
                "misc" => misc(&mut rng),
                "xhash-clone-panic" => xhash_clone_panic(&mut rng),
                "owning-fold" => owning_fold_mixed(&mut rng),
                "zst-drop" => zst_drop_one(&mut rng),
                "zst-align" => zst_align_one(&mut rng),
                "long-probe" => long_probe_one(&mut rng),
                _ => zst_one(&mut rng),
            }));
            let verdict = match r {
                Ok(Ok(())) => String::new(),
                Ok(Err(why)) => format!(" ORACLE-{}({})", tag, why.replace([' ', '(', ')'], "_")),
                Err(p) => {
                    let msg = p.downcast_ref::<String>().cloned().or_else(|| p.downcast_ref::<&str>().map(|s| s.to_string())).unwrap_or_default();
                    format!(" ORACLE-{}(panicked:{})", tag, msg.replace([' ', '(', ')'], "_"))
                }
            };
            writeln!(real, "{}{}", id, verdict).unwrap();
        }
    }
}
