//! Entry-style and remaining HashMap operations of the protocol.
//!
//! One op line = ONE complete use of an entry object: the look-up that creates the entry, a chain of
//! entry methods, and the drop of whatever is left. Every key/value object named in the op line is
//! created *before* the collection is called (like the arguments of `insert`), so that unwinding out of
//! the call drops them (logged). Objects that the API hands back are dropped after `quiet()`;
//! objects the chain never consumed are dropped explicitly while `loud()` (logged).
use crate::elems::*;
use crate::exec::{fmt_kv, fmt_v, loud, new_map, quiet, RefMap, M};
use crate::tape::{self, TapeAlloc};
use hashbrown::hash_map::{Entry, EntryRef, RawEntryMut, RustcEntry};
use std::cell::Cell;

thread_local! {
    /// identity of the key object that the next `K::from(&Q)` produces
    static REF_KID: Cell<u64> = const { Cell::new(0) };
    /// did `K::from(&Q)` run during the current op?
    static REF_CONVERTED: Cell<bool> = const { Cell::new(false) };
}

impl<'a, P: Pad> From<&'a Q> for KD<P> {
    fn from(q: &'a Q) -> Self {
        REF_CONVERTED.set(true);
        KD { k: q.0, id: REF_KID.get(), pad: P::default() }
    }
}
impl<'a, P: Pad> From<&'a Q> for KC<P> {
    fn from(q: &'a Q) -> Self {
        REF_CONVERTED.set(true);
        KC { k: q.0, id: REF_KID.get(), pad: P::default() }
    }
}

type E<'a, K, V> = Entry<'a, K, V, IdBuild, TapeAlloc>;
type ER<'a, 'b, K, V> = EntryRef<'a, 'b, K, Q, V, IdBuild, TapeAlloc>;
type RE<'a, K, V> = RawEntryMut<'a, K, V, IdBuild, TapeAlloc>;
type RU<'a, K, V> = RustcEntry<'a, K, V, TapeAlloc>;

fn fmt_k<K: KeyT>(k: &K) -> String {
    if K::IDS {
        format!("{}.{}", k.k(), k.id())
    } else {
        format!("{}.0", k.k())
    }
}

fn etag<K, V>(e: &E<'_, K, V>) -> &'static str {
    match e {
        Entry::Occupied(_) => "occ",
        Entry::Vacant(_) => "vac",
    }
}
fn fmt_entry<K: KeyT, V: ValT>(e: &E<'_, K, V>) -> String {
    match e {
        Entry::Occupied(oe) => format!("occ:{}", fmt_kv(oe.key(), oe.get())),
        Entry::Vacant(ve) => format!("vac:{}", fmt_k(ve.key())),
    }
}
fn bad(name: &str, a: &[&str]) -> String {
    format!("bad-op {} {}", name, a.join(" "))
}

/// `map.entry(K(k, kid))` + chain.
fn run_entry_chain<K: KeyT, V: ValT>(m: &mut M<K, V>, k: u64, kid: u64, ch: &[&str]) -> String {
    let n = |i: usize| -> u64 { ch[i].parse().unwrap() };
    let key = K::new(k, kid);
    match (ch[0], ch.len()) {
        ("insert", 3) => {
            let val = V::new(n(1), n(2));
            let e = m.entry(key);
            let tag = etag(&e);
            let oe = e.insert(val);
            format!("{} {}", tag, fmt_kv(oe.key(), oe.get()))
        }
        ("or_insert", 3) => {
            let val = V::new(n(1), n(2));
            let e = m.entry(key);
            let tag = etag(&e);
            let v = e.or_insert(val);
            format!("{} {}", tag, fmt_v::<K, V>(v))
        }
        ("or_insert_with", 3) => {
            let val = V::new(n(1), n(2));
            let e = m.entry(key);
            let tag = etag(&e);
            let v = e.or_insert_with(move || val);
            format!("{} {}", tag, fmt_v::<K, V>(v))
        }
        ("or_insert_with_key", 3) => {
            let val = V::new(n(1), n(2));
            let e = m.entry(key);
            let tag = etag(&e);
            let v = e.or_insert_with_key(move |kk: &K| {
                let mut val = val;
                val.set_v(val.v() + kk.id());
                val
            });
            format!("{} {}", tag, fmt_v::<K, V>(v))
        }
        ("and_modify", 5) if ch[2] == "or_insert" => {
            let nv = n(1);
            let val = V::new(n(3), n(4));
            let e = m.entry(key);
            let tag = etag(&e);
            let v = e.and_modify(|x| x.set_v(nv)).or_insert(val);
            format!("{} {}", tag, fmt_v::<K, V>(v))
        }
        ("key", 1) => {
            let e = m.entry(key);
            format!("{} {}", etag(&e), fmt_k(e.key()))
        }
        ("drop", 1) => {
            let e = m.entry(key);
            let tag = etag(&e);
            drop(e);
            tag.into()
        }
        ("occ_remove", 1) => match m.entry(key) {
            Entry::Occupied(oe) => {
                let v = oe.remove();
                quiet();
                format!("occ {}", fmt_v::<K, V>(&v))
            }
            Entry::Vacant(ve) => {
                drop(ve);
                "vac".into()
            }
        },
        ("occ_remove_entry", 1) => match m.entry(key) {
            Entry::Occupied(oe) => {
                let (k2, v2) = oe.remove_entry();
                quiet();
                format!("occ {}", fmt_kv(&k2, &v2))
            }
            Entry::Vacant(ve) => {
                drop(ve);
                "vac".into()
            }
        },
        ("occ_insert", 3) => {
            let val = V::new(n(1), n(2));
            match m.entry(key) {
                Entry::Occupied(mut oe) => {
                    let old = oe.insert(val);
                    quiet();
                    format!("occ {}", fmt_v::<K, V>(&old))
                }
                Entry::Vacant(ve) => {
                    drop(ve);
                    drop(val);
                    "vac".into()
                }
            }
        }
        ("occ_get_mut", 2) => match m.entry(key) {
            Entry::Occupied(mut oe) => {
                oe.get_mut().set_v(n(1));
                format!("occ {}", fmt_v::<K, V>(oe.get()))
            }
            Entry::Vacant(ve) => {
                drop(ve);
                "vac".into()
            }
        },
        // `OccupiedEntry::into_mut`: the same write through the reference that outlives the entry
        ("occ_into_mut", 2) => match m.entry(key) {
            Entry::Occupied(oe) => {
                let v: &mut V = oe.into_mut();
                v.set_v(n(1));
                format!("occ {}", fmt_v::<K, V>(v))
            }
            Entry::Vacant(ve) => {
                drop(ve);
                "vac".into()
            }
        },
        ("replace_entry_with", 3) => {
            let (keep, nv) = (ch[1] == "keep", n(2));
            match m.entry(key) {
                Entry::Occupied(oe) => {
                    let r = oe.replace_entry_with(|_k, mut v| {
                        if keep {
                            v.set_v(nv);
                            Some(v)
                        } else {
                            None
                        }
                    });
                    format!("occ {}", fmt_entry(&r))
                }
                Entry::Vacant(ve) => {
                    drop(ve);
                    "vac".into()
                }
            }
        }
        ("and_replace_entry_with", 3) => {
            let (keep, nv) = (ch[1] == "keep", n(2));
            let e = m.entry(key);
            let tag = etag(&e);
            let r = e.and_replace_entry_with(|_k, mut v| {
                if keep {
                    v.set_v(nv);
                    Some(v)
                } else {
                    None
                }
            });
            format!("{} {}", tag, fmt_entry(&r))
        }
        ("vac_insert", 3) => {
            let val = V::new(n(1), n(2));
            match m.entry(key) {
                Entry::Vacant(ve) => {
                    let v = ve.insert(val);
                    format!("vac {}", fmt_v::<K, V>(v))
                }
                Entry::Occupied(_) => {
                    drop(val);
                    "occ".into()
                }
            }
        }
        ("vac_insert_entry", 3) => {
            let val = V::new(n(1), n(2));
            match m.entry(key) {
                Entry::Vacant(ve) => {
                    let oe = ve.insert_entry(val);
                    format!("vac {}", fmt_kv(oe.key(), oe.get()))
                }
                Entry::Occupied(_) => {
                    drop(val);
                    "occ".into()
                }
            }
        }
        ("vac_into_key", 1) => match m.entry(key) {
            Entry::Vacant(ve) => {
                let k2 = ve.into_key();
                quiet();
                format!("vac {}", fmt_k(&k2))
            }
            Entry::Occupied(_) => "occ".into(),
        },
        _ => {
            quiet();
            bad("entry", ch)
        }
    }
}

/// `map.entry_ref(&Q(k))` + chain; a vacant entry converts `&Q` into a key object with id `newkid`.
fn run_entry_ref_chain<K, V>(m: &mut M<K, V>, k: u64, newkid: u64, ch: &[&str]) -> String
where
    K: KeyT + for<'a> From<&'a Q>,
    V: ValT,
{
    let n = |i: usize| -> u64 { ch[i].parse().unwrap() };
    REF_KID.set(newkid);
    let q = Q(k);
    fn tag<K, V>(e: &ER<'_, '_, K, V>) -> &'static str {
        match e {
            EntryRef::Occupied(_) => "occ",
            EntryRef::Vacant(_) => "vac",
        }
    }
    match (ch[0], ch.len()) {
        ("insert", 3) => {
            let val = V::new(n(1), n(2));
            let e: ER<'_, '_, K, V> = m.entry_ref(&q);
            let t = tag(&e);
            let oe = e.insert(val);
            format!("{} {}", t, fmt_kv(oe.key(), oe.get()))
        }
        ("or_insert", 3) => {
            let val = V::new(n(1), n(2));
            let e: ER<'_, '_, K, V> = m.entry_ref(&q);
            let t = tag(&e);
            let v = e.or_insert(val);
            format!("{} {}", t, fmt_v::<K, V>(v))
        }
        ("or_insert_with", 3) => {
            let val = V::new(n(1), n(2));
            let e: ER<'_, '_, K, V> = m.entry_ref(&q);
            let t = tag(&e);
            let v = e.or_insert_with(move || val);
            format!("{} {}", t, fmt_v::<K, V>(v))
        }
        ("and_modify", 5) if ch[2] == "or_insert" => {
            let nv = n(1);
            let val = V::new(n(3), n(4));
            let e: ER<'_, '_, K, V> = m.entry_ref(&q);
            let t = tag(&e);
            let v = e.and_modify(|x| x.set_v(nv)).or_insert(val);
            format!("{} {}", t, fmt_v::<K, V>(v))
        }
        ("drop", 1) => {
            let e: ER<'_, '_, K, V> = m.entry_ref(&q);
            let t = tag(&e);
            drop(e);
            t.into()
        }
        // `EntryRef::key` needs `K: Borrow<Q>`; the per-variant accessors do not
        ("key", 1) => match m.entry_ref(&q) {
            EntryRef::Occupied(oe) => format!("occ {}", oe.key().k()),
            EntryRef::Vacant(ve) => format!("vac {}", ve.key().0),
        },
        _ => bad("entry_ref", ch),
    }
}

/// `entry_ref` needs `K: From<&Q>`, which `KeyT` does not promise: dispatch on the concrete element
/// types of `exec::make_runner` (an unknown combination yields `bad-op`).
fn entry_ref_dispatch<K: KeyT, V: ValT>(m: &mut M<K, V>, k: u64, newkid: u64, ch: &[&str]) -> String {
    let any: &mut dyn std::any::Any = m;
    macro_rules! go {
        ($($kt:ty, $vt:ty);*) => {
            $(
                if let Some(mm) = any.downcast_mut::<M<$kt, $vt>>() {
                    return run_entry_ref_chain::<$kt, $vt>(mm, k, newkid, ch);
                }
            )*
        };
    }
    go!(KD<()>, VD; KC<()>, VC; KD<A16>, VD; KC<A16>, VC; KD<A32>, VD; KC<A32>, VC; KD<A64>, VD; KC<A64>, VC; KD<Big>, VD; KC<Big>, VC);
    bad("entry_ref(no From<&Q> for this key type)", ch)
}

/// `map.rustc_entry(K(k, kid))` + chain.
fn run_rustc_chain<K: KeyT, V: ValT>(m: &mut M<K, V>, k: u64, kid: u64, ch: &[&str]) -> String {
    let n = |i: usize| -> u64 { ch[i].parse().unwrap() };
    let key = K::new(k, kid);
    fn tag<K, V>(e: &RU<'_, K, V>) -> &'static str {
        match e {
            RustcEntry::Occupied(_) => "occ",
            RustcEntry::Vacant(_) => "vac",
        }
    }
    match (ch[0], ch.len()) {
        ("insert", 3) => {
            let val = V::new(n(1), n(2));
            let e = m.rustc_entry(key);
            let t = tag(&e);
            let oe = e.insert(val);
            format!("{} {}", t, fmt_kv(oe.key(), oe.get()))
        }
        ("or_insert", 3) => {
            let val = V::new(n(1), n(2));
            let e = m.rustc_entry(key);
            let t = tag(&e);
            let v = e.or_insert(val);
            format!("{} {}", t, fmt_v::<K, V>(v))
        }
        ("occ_remove", 1) => match m.rustc_entry(key) {
            RustcEntry::Occupied(oe) => {
                let v = oe.remove();
                quiet();
                format!("occ {}", fmt_v::<K, V>(&v))
            }
            RustcEntry::Vacant(ve) => {
                drop(ve);
                "vac".into()
            }
        },
        ("occ_insert", 3) => {
            let val = V::new(n(1), n(2));
            match m.rustc_entry(key) {
                RustcEntry::Occupied(mut oe) => {
                    let old = oe.insert(val);
                    quiet();
                    format!("occ {}", fmt_v::<K, V>(&old))
                }
                RustcEntry::Vacant(ve) => {
                    drop(ve);
                    drop(val);
                    "vac".into()
                }
            }
        }
        ("vac_insert", 3) => {
            let val = V::new(n(1), n(2));
            match m.rustc_entry(key) {
                RustcEntry::Vacant(ve) => {
                    let v = ve.insert(val);
                    format!("vac {}", fmt_v::<K, V>(v))
                }
                RustcEntry::Occupied(_) => {
                    drop(val);
                    "occ".into()
                }
            }
        }
        ("vac_insert_entry", 3) => {
            let val = V::new(n(1), n(2));
            match m.rustc_entry(key) {
                RustcEntry::Vacant(ve) => {
                    let oe = ve.insert_entry(val);
                    format!("vac {}", fmt_kv(oe.key(), oe.get()))
                }
                RustcEntry::Occupied(_) => {
                    drop(val);
                    "occ".into()
                }
            }
        }
        ("drop", 1) => {
            let e = m.rustc_entry(key);
            let t = tag(&e);
            drop(e);
            t.into()
        }
        _ => {
            quiet();
            bad("rustc_entry", ch)
        }
    }
}

fn raw_look<'a, K: KeyT, V: ValT>(m: &'a mut M<K, V>, mode: &str, k: u64) -> RE<'a, K, V> {
    match mode {
        "raw_from_key" => m.raw_entry_mut().from_key(&Q(k)),
        "raw_from_key_hashed" => m.raw_entry_mut().from_key_hashed_nocheck(tape::plan_hash(k), &Q(k)),
        _ => m.raw_entry_mut().from_hash(tape::plan_hash(k), |kk: &K| tape::eq_of(k, kk.k())),
    }
}

/// `map.raw_entry_mut().from_…(k)` + chain.
fn run_raw_chain<K: KeyT, V: ValT>(m: &mut M<K, V>, mode: &str, k: u64, ch: &[&str]) -> String {
    let n = |i: usize| -> u64 { ch[i].parse().unwrap() };
    fn tag<K, V>(e: &RE<'_, K, V>) -> &'static str {
        match e {
            RawEntryMut::Occupied(_) => "occ",
            RawEntryMut::Vacant(_) => "vac",
        }
    }
    match (ch[0], ch.len()) {
        ("insert", 4) => {
            let key = K::new(k, n(1));
            let val = V::new(n(2), n(3));
            let e = raw_look(m, mode, k);
            let t = tag(&e);
            let oe = e.insert(key, val);
            format!("{} {}", t, fmt_kv(oe.key(), oe.get()))
        }
        ("or_insert", 4) => {
            let key = K::new(k, n(1));
            let val = V::new(n(2), n(3));
            let e = raw_look(m, mode, k);
            let t = tag(&e);
            let (k2, v2) = e.or_insert(key, val);
            format!("{} {}", t, fmt_kv(&*k2, &*v2))
        }
        ("vac_insert", 4) | ("vac_insert_hashed", 4) | ("vac_insert_with_hasher", 4) => {
            let key = K::new(k, n(1));
            let val = V::new(n(2), n(3));
            match raw_look(m, mode, k) {
                RawEntryMut::Vacant(ve) => {
                    let (k2, v2) = match ch[0] {
                        "vac_insert" => ve.insert(key, val),
                        "vac_insert_hashed" => ve.insert_hashed_nocheck(tape::plan_hash(k), key, val),
                        _ => ve.insert_with_hasher(tape::plan_hash(k), key, val, |kk: &K| tape::hash_of(kk.k())),
                    };
                    format!("vac {}", fmt_kv(&*k2, &*v2))
                }
                RawEntryMut::Occupied(_) => {
                    drop(val);
                    drop(key);
                    "occ".into()
                }
            }
        }
        ("occ_remove", 1) => match raw_look(m, mode, k) {
            RawEntryMut::Occupied(oe) => {
                let v = oe.remove();
                quiet();
                format!("occ {}", fmt_v::<K, V>(&v))
            }
            RawEntryMut::Vacant(_) => "vac".into(),
        },
        ("occ_remove_entry", 1) => match raw_look(m, mode, k) {
            RawEntryMut::Occupied(oe) => {
                let (k2, v2) = oe.remove_entry();
                quiet();
                format!("occ {}", fmt_kv(&k2, &v2))
            }
            RawEntryMut::Vacant(_) => "vac".into(),
        },
        ("occ_insert", 3) => {
            let val = V::new(n(1), n(2));
            match raw_look(m, mode, k) {
                RawEntryMut::Occupied(mut oe) => {
                    let old = oe.insert(val);
                    quiet();
                    format!("occ {}", fmt_v::<K, V>(&old))
                }
                RawEntryMut::Vacant(_) => {
                    drop(val);
                    "vac".into()
                }
            }
        }
        ("occ_insert_key", 2) => {
            let key = K::new(k, n(1));
            match raw_look(m, mode, k) {
                RawEntryMut::Occupied(mut oe) => {
                    let old = oe.insert_key(key);
                    quiet();
                    format!("occ {}", fmt_k(&old))
                }
                RawEntryMut::Vacant(_) => {
                    drop(key);
                    "vac".into()
                }
            }
        }
        ("and_modify", 2) => {
            let nv = n(1);
            match raw_look(m, mode, k).and_modify(|_k, v| v.set_v(nv)) {
                RawEntryMut::Occupied(oe) => format!("occ {}", fmt_kv(oe.key(), oe.get())),
                RawEntryMut::Vacant(_) => "vac".into(),
            }
        }
        // the same update through `RawOccupiedEntryMut::into_key_value` / `key_mut` + `get_mut` + `into_mut`
        ("into_key_value", 2) => {
            let nv = n(1);
            match raw_look(m, mode, k) {
                RawEntryMut::Occupied(oe) => {
                    let (kk, v) = oe.into_key_value();
                    v.set_v(nv);
                    format!("occ {}", fmt_kv(&*kk, &*v))
                }
                RawEntryMut::Vacant(_) => "vac".into(),
            }
        }
        ("key_mut_get_mut", 2) => {
            let nv = n(1);
            match raw_look(m, mode, k) {
                RawEntryMut::Occupied(mut oe) => {
                    let ks = fmt_k(&*oe.key_mut());
                    oe.get_mut().set_v(nv);
                    let v: &mut V = oe.into_mut();
                    format!("occ {}.{}", ks, fmt_v::<K, V>(&*v))
                }
                RawEntryMut::Vacant(_) => "vac".into(),
            }
        }
        ("replace_entry_with", 3) => {
            let (keep, nv) = (ch[1] == "keep", n(2));
            match raw_look(m, mode, k) {
                RawEntryMut::Occupied(oe) => {
                    let r = oe.replace_entry_with(|_k, mut v| {
                        if keep {
                            v.set_v(nv);
                            Some(v)
                        } else {
                            None
                        }
                    });
                    match r {
                        RawEntryMut::Occupied(oe2) => format!("occ occ:{}", fmt_kv(oe2.key(), oe2.get())),
                        RawEntryMut::Vacant(_) => "occ vac:".into(),
                    }
                }
                RawEntryMut::Vacant(_) => "vac".into(),
            }
        }
        ("drop", 1) => {
            let e = raw_look(m, mode, k);
            tag(&e).into()
        }
        _ => bad(mode, ch),
    }
}

/// The by-reference `Extend` impls of `HashMap` (`K: Copy, V: Copy`), reached by downcasting to the
/// concrete `Copy` element types the runners are instantiated with. `false`: not a `Copy` instantiation.
fn extend_refs_any<K: KeyT, V: ValT>(m: &mut M<K, V>, items: &Vec<(K, V)>, form: u64) -> bool {
    use crate::elems::*;
    macro_rules! try_ty {
        ($k:ty, $v:ty) => {
            if let (Some(mm), Some(it)) = (
                (m as &mut dyn std::any::Any).downcast_mut::<M<$k, $v>>(),
                (items as &dyn std::any::Any).downcast_ref::<Vec<($k, $v)>>(),
            ) {
                if form == 0 {
                    mm.extend(it.iter().map(|(k, v)| (k, v)));
                } else {
                    mm.extend(it.iter());
                }
                return true;
            }
        };
    }
    try_ty!(KC<()>, VC);
    try_ty!(KC<A16>, VC);
    try_ty!(KC<A64>, VC);
    try_ty!(KC<Big>, VC);
    try_ty!(K3, V2);
    false
}

fn parse_items<K: KeyT, V: ValT>(a: &[&str]) -> Option<Vec<(K, V)>> {
    let cnt: usize = a.first()?.parse().ok()?;
    if a.len() != 1 + 4 * cnt {
        return None;
    }
    let p = |i: usize| -> u64 { a[i].parse().unwrap() };
    Some((0..cnt).map(|j| (K::new(p(1 + 4 * j), p(2 + 4 * j)), V::new(p(3 + 4 * j), p(4 + 4 * j)))).collect())
}

fn get_many<K: KeyT, V: ValT, const N: usize>(m: &mut M<K, V>, a: &[&str], kv: bool) -> String {
    let qs: [Q; N] = std::array::from_fn(|i| Q(a[i].parse().unwrap()));
    let refs: [&Q; N] = std::array::from_fn(|i| &qs[i]);
    let mut out = Vec::new();
    // direct oracle, valid for every hasher/eq: the returned `&mut V` are pairwise disjoint
    let mut addrs: Vec<usize> = Vec::new();
    if kv {
        for (i, x) in m.get_many_key_value_mut(refs).into_iter().enumerate() {
            match x {
                Some((k, v)) => {
                    addrs.push(&*v as *const V as usize);
                    out.push(fmt_kv(k, &*v));
                    v.set_v(v.v() + 1000 * (i as u64 + 1));
                }
                None => out.push("-".into()),
            }
        }
    } else {
        for (i, x) in m.get_many_mut(refs).into_iter().enumerate() {
            match x {
                Some(v) => {
                    addrs.push(&*v as *const V as usize);
                    out.push(fmt_v::<K, V>(&*v));
                    v.set_v(v.v() + 1000 * (i as u64 + 1));
                }
                None => out.push("-".into()),
            }
        }
    }
    addrs.sort_unstable();
    if std::mem::size_of::<V>() != 0 && addrs.windows(2).any(|w| w[0] == w[1]) {
        return format!("{} ORACLE-ALIAS(get_many_mut_returned_two_mutable_references_to_one_value)", out.join(","));
    }
    out.join(",")
}

/// Execute `name args` on `m` (`other` = the second collection). Unknown ops yield `bad-op`.
pub fn run_entry<K: KeyT, V: ValT>(m: &mut M<K, V>, _other: &mut M<K, V>, name: &str, a: &[&str]) -> String {
    let n = |i: usize| -> u64 { a[i].parse().unwrap() };
    REF_CONVERTED.set(false);
    match (name, a.len()) {
        ("entry", l) if l >= 3 => run_entry_chain(m, n(0), n(1), &a[2..]),
        ("entry_ref", l) if l >= 3 => entry_ref_dispatch(m, n(0), n(1), &a[2..]),
        ("rustc_entry", l) if l >= 3 => run_rustc_chain(m, n(0), n(1), &a[2..]),
        ("entry_replace_panic", 2) => {
            // a panicking user closure inside replace_entry_with (the element must already be out of
            // the table when the closure runs)
            let key = K::new(n(0), n(1));
            match m.entry(key) {
                Entry::Occupied(o) => {
                    let _ = o.replace_entry_with(|_k, _v| -> Option<V> {
                        std::panic::panic_any(tape::TapePanic("pred"))
                    });
                    "occ".into()
                }
                Entry::Vacant(v) => {
                    drop(v);
                    "vac".into()
                }
            }
        }
        ("entry_and_replace_panic", 2) => {
            let key = K::new(n(0), n(1));
            let e = m.entry(key);
            let t = etag(&e);
            let _ = e.and_replace_entry_with(|_k, _v| -> Option<V> { std::panic::panic_any(tape::TapePanic("pred")) });
            t.into()
        }
        ("entry_or_insert_with_panic", 2) => {
            let key = K::new(n(0), n(1));
            let e = m.entry(key);
            let t = etag(&e);
            let _ = e.or_insert_with(|| -> V { std::panic::panic_any(tape::TapePanic("pred")) });
            t.into()
        }
        ("entry_and_modify_panic", 2) => {
            let key = K::new(n(0), n(1));
            let e = m.entry(key);
            let t = etag(&e);
            let e2 = e.and_modify(|_v| std::panic::panic_any(tape::TapePanic("pred")));
            drop(e2);
            t.into()
        }
        // raw entries: `replace_entry_with` (a[2] = "occ") / `and_replace_entry_with` (a[2] = "and") with a
        // closure that panics
        ("raw_replace_panic", 3) => {
            let k = n(1);
            let e = raw_look(m, a[0], k);
            let t = match &e {
                RawEntryMut::Occupied(_) => "occ",
                RawEntryMut::Vacant(_) => "vac",
            };
            if a[2] == "and" {
                let _ = e.and_replace_entry_with(|_k, _v| -> Option<V> { std::panic::panic_any(tape::TapePanic("pred")) });
            } else if let RawEntryMut::Occupied(o) = e {
                let _ = o.replace_entry_with(|_k, _v| -> Option<V> { std::panic::panic_any(tape::TapePanic("pred")) });
            }
            t.into()
        }
        // a raw entry looked up with one key (a[1]) and filled with ANOTHER key (a[3]): the stored key decides
        // where the pair is filed
        ("raw_other", 7) => {
            let k = n(1);
            let key = K::new(n(3), n(4));
            let val = V::new(n(5), n(6));
            let e = raw_look(m, a[0], k);
            if a[2] == "or_insert" {
                let t = match &e {
                    RawEntryMut::Occupied(_) => "occ",
                    RawEntryMut::Vacant(_) => "vac",
                };
                let (k2, v2) = e.or_insert(key, val);
                format!("{} {}", t, fmt_kv(&*k2, &*v2))
            } else {
                match e {
                    RawEntryMut::Vacant(ve) => {
                        let (k2, v2) = ve.insert(key, val);
                        format!("vac {}", fmt_kv(&*k2, &*v2))
                    }
                    RawEntryMut::Occupied(_) => {
                        drop(val);
                        drop(key);
                        "occ".into()
                    }
                }
            }
        }
        ("try_insert", 4) => {
            let (k, kid) = (n(0), n(1));
            let key = K::new(k, kid);
            let val = V::new(n(2), n(3));
            match m.try_insert(key, val) {
                Ok(v) => format!("ok {}.{}.{}", k, if K::IDS { kid } else { 0 }, fmt_v::<K, V>(v)),
                Err(err) => {
                    let s = format!("err {}", fmt_kv(err.entry.key(), err.entry.get()));
                    // the rejected value comes back inside the error
                    quiet();
                    drop(err);
                    s
                }
            }
        }
        ("raw_from_key", l) | ("raw_from_key_hashed", l) | ("raw_from_hash", l) if l >= 2 => {
            run_raw_chain(m, name, n(0), &a[1..])
        }
        ("raw_get", 1) => m.raw_entry().from_key(&Q(n(0))).map_or("-".into(), |(k, v)| fmt_kv(k, v)),
        ("raw_get_hash", 1) => {
            let k = n(0);
            m.raw_entry()
                .from_hash(tape::plan_hash(k), |kk: &K| tape::eq_of(k, kk.k()))
                .map_or("-".into(), |(k, v)| fmt_kv(k, v))
        }
        ("extend", _) => match parse_items::<K, V>(a) {
            Some(items) => {
                m.extend(items);
                "()".into()
            }
            None => bad(name, a),
        },
        // `Extend<(&K, &V)>` (r0) / `Extend<&(K, V)>` (r1): only for `Copy` element types; other
        // element types take the by-value impl (the model is `extend` in every case)
        ("extend_r0", _) | ("extend_r1", _) => match parse_items::<K, V>(a) {
            Some(items) => {
                if !extend_refs_any(m, &items, if name == "extend_r0" { 0 } else { 1 }) {
                    m.extend(items);
                }
                "()".into()
            }
            None => bad(name, a),
        },

        ("from_iter", _) => match parse_items::<K, V>(a) {
            Some(items) => {
                let old = std::mem::replace(m, new_map());
                drop(old);
                *m = <M<K, V> as FromIterator<(K, V)>>::from_iter(items);
                "()".into()
            }
            None => bad(name, a),
        },
        ("get_many_mut", l) | ("get_many_key_value_mut", l) if l <= 4 => {
            let kv = name == "get_many_key_value_mut";
            match l {
                0 => get_many::<K, V, 0>(m, a, kv),
                1 => get_many::<K, V, 1>(m, a, kv),
                2 => get_many::<K, V, 2>(m, a, kv),
                3 => get_many::<K, V, 3>(m, a, kv),
                _ => get_many::<K, V, 4>(m, a, kv),
            }
        }
        ("index", 1) => fmt_v::<K, V>(&m[&Q(n(0))]),
        ("insert_unique_unchecked", 4) => {
            let key = K::new(n(0), n(1));
            let val = V::new(n(2), n(3));
            // only generated for keys that are absent
            let (k2, v2) = unsafe { m.insert_unique_unchecked(key, val) };
            fmt_kv(k2, &*v2)
        }
        ("into_keys", 1) => {
            let old = std::mem::replace(m, new_map());
            let mut out = Vec::new();
            {
                let total = old.len();
                let mut it = old.into_keys();
                for i in 0..n(0) {
                    match crate::exec::next_exact(&mut it, total - std::cmp::min(i as usize, total)) {
                        Some(k) => {
                            out.push(fmt_k(&k));
                            quiet();
                            drop(k);
                            loud();
                        }
                        None => break,
                    }
                }
            }
            out.join(",")
        }
        ("into_values", 1) => {
            let old = std::mem::replace(m, new_map());
            let mut out = Vec::new();
            {
                let total = old.len();
                let mut it = old.into_values();
                for i in 0..n(0) {
                    match crate::exec::next_exact(&mut it, total - std::cmp::min(i as usize, total)) {
                        Some(v) => {
                            out.push(fmt_v::<K, V>(&v));
                            quiet();
                            drop(v);
                            loud();
                        }
                        None => break,
                    }
                }
            }
            out.join(",")
        }
        // consumed through `fold` (for_each) by a consumer that panics at the n-th element (0 = to completion)
        ("into_keys_fold", 1) | ("into_values_fold", 1) => {
            let old = std::mem::replace(m, new_map());
            let mut out: Vec<String> = Vec::new();
            let stop = n(0) as usize;
            let keys = name == "into_keys_fold";
            let r = std::panic::catch_unwind(std::panic::AssertUnwindSafe(|| {
                if keys {
                    old.into_keys().for_each(|k| {
                        out.push(fmt_k(&k));
                        quiet();
                        drop(k);
                        loud();
                        if out.len() == stop {
                            std::panic::panic_any(tape::TapePanic("consumer"));
                        }
                    });
                } else {
                    old.into_values().for_each(|v| {
                        out.push(fmt_v::<K, V>(&v));
                        quiet();
                        drop(v);
                        loud();
                        if out.len() == stop {
                            std::panic::panic_any(tape::TapePanic("consumer"));
                        }
                    });
                }
            }));
            if let Err(p) = r {
                match p.downcast_ref::<tape::TapePanic>() {
                    Some(tp) if tp.0 == "consumer" => {}
                    _ => std::panic::resume_unwind(p),
                }
            }
            out.join(",")
        }
        ("values_mut_set", 1) => {
            let nv = n(0);
            for v in m.values_mut() {
                v.set_v(nv);
            }
            "()".into()
        }
        _ => bad(name, a),
    }
}

type RE3 = (u64, u64, u64);

/// Reference semantics of an `Entry`/`EntryRef`/`RustcEntry` chain on key `k`; `kid` is the identity
/// a newly stored key object gets. Returns the expected return text.
fn ref_echain(r: &mut RefMap, k: u64, kid: u64, ch: &[&str], by_ref: bool) -> Option<String> {
    let n = |i: usize| -> u64 { ch[i].parse().unwrap() };
    let fe = |e: &RE3| format!("{}.{}.{}.{}", k, e.0, e.1, e.2);
    let fv = |e: &RE3| format!("{}.{}", e.1, e.2);
    let cur = r.get(&k).copied();
    Some(match (ch[0], cur) {
        ("insert", Some(old)) => {
            let e = (old.0, n(1), n(2));
            r.insert(k, e);
            format!("occ {}", fe(&e))
        }
        ("insert", None) | ("vac_insert_entry", None) => {
            let e = (kid, n(1), n(2));
            r.insert(k, e);
            format!("vac {}", fe(&e))
        }
        ("or_insert", Some(old)) | ("or_insert_with", Some(old)) | ("or_insert_with_key", Some(old)) => {
            format!("occ {}", fv(&old))
        }
        ("or_insert", None) | ("or_insert_with", None) | ("vac_insert", None) => {
            let e = (kid, n(1), n(2));
            r.insert(k, e);
            format!("vac {}", fv(&e))
        }
        ("or_insert_with_key", None) => {
            let e = (kid, n(1), n(2) + kid);
            r.insert(k, e);
            format!("vac {}", fv(&e))
        }
        ("and_modify", Some(old)) => {
            let e = (old.0, old.1, n(1));
            r.insert(k, e);
            format!("occ {}", fv(&e))
        }
        ("and_modify", None) => {
            let e = (kid, n(3), n(4));
            r.insert(k, e);
            format!("vac {}", fv(&e))
        }
        ("key", Some(old)) => {
            if by_ref {
                format!("occ {}", k)
            } else {
                format!("occ {}.{}", k, old.0)
            }
        }
        ("key", None) => {
            if by_ref {
                format!("vac {}", k)
            } else {
                format!("vac {}.{}", k, kid)
            }
        }
        ("occ_remove", Some(old)) => {
            r.remove(&k);
            format!("occ {}", fv(&old))
        }
        ("occ_remove_entry", Some(old)) => {
            r.remove(&k);
            format!("occ {}", fe(&old))
        }
        ("occ_insert", Some(old)) => {
            r.insert(k, (old.0, n(1), n(2)));
            format!("occ {}", fv(&old))
        }
        ("occ_get_mut", Some(old)) | ("occ_into_mut", Some(old)) => {
            let e = (old.0, old.1, n(1));
            r.insert(k, e);
            format!("occ {}", fv(&e))
        }
        ("replace_entry_with", Some(old)) | ("and_replace_entry_with", Some(old)) => {
            if ch[1] == "keep" {
                let e = (old.0, old.1, n(2));
                r.insert(k, e);
                format!("occ occ:{}", fe(&e))
            } else {
                r.remove(&k);
                format!("occ vac:{}.{}", k, old.0)
            }
        }
        ("and_replace_entry_with", None) => format!("vac vac:{}.{}", k, kid),
        ("vac_into_key", None) => format!("vac {}.{}", k, kid),
        (_, Some(_)) => "occ".into(),
        (_, None) => "vac".into(),
    })
}

fn ref_raw_chain(r: &mut RefMap, k: u64, ch: &[&str]) -> Option<String> {
    let n = |i: usize| -> u64 { ch[i].parse().unwrap() };
    let fe = |e: &RE3| format!("{}.{}.{}.{}", k, e.0, e.1, e.2);
    let fv = |e: &RE3| format!("{}.{}", e.1, e.2);
    let cur = r.get(&k).copied();
    Some(match (ch[0], cur) {
        ("insert", Some(old)) => {
            let e = (old.0, n(2), n(3));
            r.insert(k, e);
            format!("occ {}", fe(&e))
        }
        ("or_insert", Some(old)) => format!("occ {}", fe(&old)),
        ("insert", None)
        | ("or_insert", None)
        | ("vac_insert", None)
        | ("vac_insert_hashed", None)
        | ("vac_insert_with_hasher", None) => {
            let e = (n(1), n(2), n(3));
            r.insert(k, e);
            format!("vac {}", fe(&e))
        }
        ("occ_remove", Some(old)) => {
            r.remove(&k);
            format!("occ {}", fv(&old))
        }
        ("occ_remove_entry", Some(old)) => {
            r.remove(&k);
            format!("occ {}", fe(&old))
        }
        ("occ_insert", Some(old)) => {
            r.insert(k, (old.0, n(1), n(2)));
            format!("occ {}", fv(&old))
        }
        ("occ_insert_key", Some(old)) => {
            r.insert(k, (n(1), old.1, old.2));
            format!("occ {}.{}", k, old.0)
        }
        ("and_modify", Some(old)) | ("into_key_value", Some(old)) | ("key_mut_get_mut", Some(old)) => {
            let e = (old.0, old.1, n(1));
            r.insert(k, e);
            format!("occ {}", fe(&e))
        }
        ("replace_entry_with", Some(old)) => {
            if ch[1] == "keep" {
                let e = (old.0, old.1, n(2));
                r.insert(k, e);
                format!("occ occ:{}", fe(&e))
            } else {
                r.remove(&k);
                "occ vac:".into()
            }
        }
        (_, Some(_)) => "occ".into(),
        (_, None) => "vac".into(),
    })
}

/// Reference semantics: update `r` (target) / `o` (other) and return the expected return text
/// (`Ok(None)` = no expectation), or `Err(complaint)`.
pub fn ref_entry(
    r: &mut RefMap,
    _o: &mut RefMap,
    name: &str,
    a: &[&str],
    ret: &str,
    _actual: &RefMap,
) -> Result<Option<String>, String> {
    let n = |i: usize| -> u64 { a[i].parse().unwrap() };
    let fe = |k: u64, e: &RE3| format!("{}.{}.{}.{}", k, e.0, e.1, e.2);
    let fv = |e: &RE3| format!("{}.{}", e.1, e.2);
    let ins = |r: &mut RefMap, k: u64, kid: u64, vid: u64, v: u64| match r.get(&k).copied() {
        // plain `insert`: the key object already stored is kept
        Some(old) => r.insert(k, (old.0, vid, v)),
        None => r.insert(k, (kid, vid, v)),
    };
    Ok(match name {
        "entry" | "rustc_entry" if a.len() >= 3 => ref_echain(r, n(0), n(1), &a[2..], false),
        "entry_ref" if a.len() >= 3 => ref_echain(r, n(0), n(1), &a[2..], true),
        "try_insert" if a.len() == 4 => match r.get(&n(0)).copied() {
            Some(old) => Some(format!("err {}", fe(n(0), &old))),
            None => {
                let e = (n(1), n(2), n(3));
                r.insert(n(0), e);
                Some(format!("ok {}", fe(n(0), &e)))
            }
        },
        "raw_from_key" | "raw_from_key_hashed" | "raw_from_hash" if a.len() >= 2 => ref_raw_chain(r, n(0), &a[1..]),
        "raw_other" if a.len() == 7 => match r.get(&n(1)).copied() {
            Some(old) => Some(if a[2] == "or_insert" { format!("occ {}", fe(n(1), &old)) } else { "occ".into() }),
            None => {
                let e = (n(4), n(5), n(6));
                if r.contains_key(&n(3)) {
                    // storing a second pair with a key that is already there is the caller's mistake: no reference
                    return Ok(None);
                }
                r.insert(n(3), e);
                Some(format!("vac {}", fe(n(3), &e)))
            }
        },
        "raw_get" | "raw_get_hash" => Some(r.get(&n(0)).map_or("-".into(), |e| fe(n(0), e))),
        "extend" | "extend_r0" | "extend_r1" | "from_iter" => {
            if name == "from_iter" {
                r.clear();
            }
            for j in 0..n(0) as usize {
                ins(r, n(1 + 4 * j), n(2 + 4 * j), n(3 + 4 * j), n(4 + 4 * j));
            }
            Some("()".into())
        }
        "get_many_mut" | "get_many_key_value_mut" => {
            let mut out = Vec::new();
            let mut seen = std::collections::BTreeSet::new();
            for i in 0..a.len() {
                let k = n(i);
                match r.get_mut(&k) {
                    Some(e) => {
                        if !seen.insert(k) {
                            return Err(format!("{} handed out two references to key {}", name, k));
                        }
                        out.push(if name == "get_many_mut" { fv(e) } else { fe(k, e) });
                        e.2 += 1000 * (i as u64 + 1);
                    }
                    None => out.push("-".into()),
                }
            }
            Some(out.join(","))
        }
        "index" => match r.get(&n(0)) {
            Some(e) => Some(fv(e)),
            None => return Err(format!("index of absent key {} returned a value", n(0))),
        },
        "insert_unique_unchecked" => {
            if r.contains_key(&n(0)) {
                // misuse of the unsafe API: no expectation
                *r = _actual.clone();
                None
            } else {
                let e = (n(1), n(2), n(3));
                r.insert(n(0), e);
                Some(fe(n(0), &e))
            }
        }
        "into_keys" | "into_values" | "into_keys_fold" | "into_values_fold" => {
            let fold = name.ends_with("_fold");
            let name = name.trim_end_matches("_fold");
            let got: Vec<&str> = if ret.is_empty() { vec![] } else { ret.split(',').collect() };
            let want = if fold && n(0) == 0 { r.len() } else { std::cmp::min(n(0) as usize, r.len()) };
            if got.len() != want {
                return Err(format!("{} yielded {} items, expected {}", name, got.len(), want));
            }
            let mut seen = std::collections::BTreeSet::new();
            for g in &got {
                let hit = if name == "into_keys" {
                    r.iter().find(|(k, e)| format!("{}.{}", k, e.0) == *g)
                } else {
                    r.iter().find(|(_, e)| fv(e) == *g)
                };
                match hit {
                    Some((k, _)) if seen.insert(*k) => {}
                    _ => return Err(format!("{} yielded {} which is not stored (or twice)", name, g)),
                }
            }
            r.clear();
            None
        }
        "values_mut_set" => {
            for e in r.values_mut() {
                e.2 = n(0);
            }
            Some("()".into())
        }
        _ => None,
    })
}

/// Ids (`k<id>` / `v<id>`) of key/value objects that the op moves into the collection call.
pub fn moved_in(name: &str, a: &[&str]) -> Vec<String> {
    let mut out = Vec::new();
    // value object of an `Entry`-style chain
    let chain_val = |ch: &[&str], out: &mut Vec<String>| match ch.first().copied() {
        Some("insert") | Some("or_insert") | Some("or_insert_with") | Some("or_insert_with_key")
        | Some("occ_insert") | Some("vac_insert") | Some("vac_insert_entry")
            if ch.len() == 3 =>
        {
            out.push(format!("v{}", ch[1]))
        }
        Some("and_modify") if ch.len() == 5 => out.push(format!("v{}", ch[3])),
        _ => {}
    };
    match name {
        "entry_replace_panic" | "entry_and_replace_panic" | "entry_or_insert_with_panic" | "entry_and_modify_panic" if a.len() == 2 => {
            out.push(format!("k{}", a[1]))
        }
        "entry" | "rustc_entry" if a.len() >= 3 => {
            out.push(format!("k{}", a[1]));
            chain_val(&a[2..], &mut out);
        }
        "entry_ref" if a.len() >= 3 => {
            // the key object exists only if `K::from(&Q)` ran
            if REF_CONVERTED.replace(false) {
                out.push(format!("k{}", a[1]));
            }
            chain_val(&a[2..], &mut out);
        }
        "raw_other" if a.len() == 7 => {
            out.push(format!("k{}", a[4]));
            out.push(format!("v{}", a[5]));
        }
        "try_insert" | "insert_unique_unchecked" if a.len() == 4 => {
            out.push(format!("k{}", a[1]));
            out.push(format!("v{}", a[2]));
        }
        "raw_from_key" | "raw_from_key_hashed" | "raw_from_hash" if a.len() >= 2 => {
            let ch = &a[1..];
            match (ch[0], ch.len()) {
                ("insert", 4) | ("or_insert", 4) | ("vac_insert", 4) | ("vac_insert_hashed", 4)
                | ("vac_insert_with_hasher", 4) => {
                    out.push(format!("k{}", ch[1]));
                    out.push(format!("v{}", ch[2]));
                }
                ("occ_insert", 3) => out.push(format!("v{}", ch[1])),
                ("occ_insert_key", 2) => out.push(format!("k{}", ch[1])),
                _ => {}
            }
        }
        "extend" | "extend_r0" | "extend_r1" | "from_iter" if !a.is_empty() => {
            let cnt: usize = a[0].parse().unwrap_or(0);
            if a.len() == 1 + 4 * cnt {
                for j in 0..cnt {
                    out.push(format!("k{}", a[2 + 4 * j]));
                    out.push(format!("v{}", a[3 + 4 * j]));
                }
            }
        }
        _ => {}
    }
    out
}
