//! Entry-style and remaining HashMap operations of the protocol (extension point).
use crate::elems::*;
use crate::exec::{RefMap, M};

/// Execute `name args` on `m` (`other` = the second collection). Unknown ops yield `bad-op`.
pub fn run_entry<K: KeyT, V: ValT>(_m: &mut M<K, V>, _other: &mut M<K, V>, name: &str, _a: &[&str]) -> String {
    format!("bad-op {}", name)
}

/// Reference semantics: update `r` (target) / `o` (other) and return the expected return text
/// (`Ok(None)` = no expectation), or `Err(complaint)`.
pub fn ref_entry(
    _r: &mut RefMap,
    _o: &mut RefMap,
    _name: &str,
    _a: &[&str],
    _ret: &str,
    _actual: &RefMap,
) -> Result<Option<String>, String> {
    Ok(None)
}

/// Ids (`k<id>` / `v<id>`) of key/value objects that the op moves into the collection call.
pub fn moved_in(_name: &str, _a: &[&str]) -> Vec<String> {
    Vec::new()
}
