//! Generators for the table / set / entry profiles (extension point).
use crate::exec::Runner;
use crate::gen::Gen;

pub fn next_table(g: &mut Gen, r: &dyn Runner) -> String {
    g.mixed(r)
}
pub fn next_set(g: &mut Gen, r: &dyn Runner) -> String {
    g.mixed(r)
}
pub fn next_entry(g: &mut Gen, r: &dyn Runner) -> String {
    g.mixed(r)
}
