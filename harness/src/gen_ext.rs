//! Generators for the table / set / entry profiles (extension point).
use crate::exec::Runner;
use crate::gen::Gen;

/// Known defect F2 of hashbrown 0.15.2: `get_many_mut` on a table of zero-sized elements reports
/// "duplicate keys" for any two *distinct* entries (it compares dangling element pointers). While this
/// is `true` the table generators do not emit that one combination (zero-sized layout,
/// `get_many_mut_any` with two or more different requests on a non-empty table), so that runs stay green.
pub const AVOID_F2: bool = false;

fn tbl_new_elem(g: &mut Gen, k: u64) -> String {
    let id = g.id();
    format!("{} {} {}", k, id, 100 + g.rng.below(50))
}

/// A key (other than `k`) whose planned hash carries the same 7-bit tag as that of `k`.
fn tbl_collider(g: &mut Gen, k: u64) -> u64 {
    let t = crate::tape::plan_hash(k) >> 57;
    let start = g.key();
    for d in 0..std::cmp::min(g.universe, 64) {
        let c = (start + d) % g.universe;
        if c != k && crate::tape::plan_hash(c) >> 57 == t {
            return c;
        }
    }
    g.key()
}

/// `get_many_mut` / `get_many_mut_any` with 0..=4 requests steered toward present, absent,
/// duplicate and colliding keys.
fn tbl_many(g: &mut Gen, r: &dyn Runner, tgt: &str) -> String {
    let n = g.rng.below(5) as usize;
    let present = r.keys(tgt);
    let zst = r.layout().0 == 0;
    let any = g.rng.chance(1, 3);
    let mut ks: Vec<u64> = Vec::new();
    for _ in 0..n {
        let mode = g.rng.below(10);
        let k = if mode < 4 && !present.is_empty() {
            *g.rng.pick(&present)
        } else if mode < 6 {
            g.key()
        } else if mode < 7 && !ks.is_empty() {
            *g.rng.pick(&ks)
        } else if mode < 9 && !ks.is_empty() {
            let k0 = ks[0];
            tbl_collider(g, k0)
        } else {
            g.universe + g.rng.below(3)
        };
        ks.push(k);
    }
    if AVOID_F2 && any && zst && n >= 2 && r.dump(tgt).items > 0 {
        ks = vec![ks[0]; n];
    }
    let name = if any { "get_many_mut_any" } else { "get_many_mut" };
    let args: Vec<String> = ks.iter().map(|k| k.to_string()).collect();
    format!("{} {} {}", tgt, name, args.join(" ")).trim_end().to_string()
}

fn tbl_key(g: &mut Gen, r: &dyn Runner, tgt: &str) -> u64 {
    // mostly keys that are stored (for zero-sized elements only the hash of the key matters)
    if r.layout().0 != 0 && g.rng.chance(2, 3) {
        if let Some(k) = g.present_key(r, tgt) {
            return k;
        }
    }
    g.key()
}

/// insert_unique / remove / find with tombstone build-up: fill until `growth_left == 0`, thin out
/// (removals from full runs leave DELETED bytes) until less than half of the capacity is used, refill
/// until the table has rehashed (in place if enough tombstones are left), repeat.
fn tbl_churn(g: &mut Gen, r: &dyn Runner) -> String {
    let d = r.dump("a");
    let cap = hashbrown::verif::bucket_mask_to_capacity(d.bucket_mask);
    let ins = match g.phase {
        0 => {
            // (a table of 16 buckets never gets a tombstone with 16-byte groups)
            if !d.is_singleton && d.growth_left == 0 && d.bucket_mask + 1 >= std::cmp::max(g.target_buckets, 32) {
                g.phase = 1;
            }
            75
        }
        1 => {
            // `growth_left == 0` with at most half of the capacity used: the next `entry` (which
            // reserves before it searches) rehashes in place; otherwise thin further to leave room
            if d.growth_left == 0 && (d.items + 4) * 2 <= cap || d.items * 4 <= cap {
                g.phase = 2;
            }
            8
        }
        _ => {
            if d.growth_left > 0 && g.rng.chance(1, 12) {
                g.phase = 0;
            }
            70
        }
    };
    let x = g.rng.below(100);
    if x < ins {
        let k = g.key();
        let entry_odds = if g.phase == 2 && d.growth_left == 0 { 1 } else if g.phase == 2 { 2 } else { 8 };
        if g.rng.chance(1, entry_odds) {
            format!("a {} {}", g.rng.pick(&["entry_insert", "entry_or_insert"]), tbl_new_elem(g, k))
        } else {
            format!("a insert_unique {}", tbl_new_elem(g, k))
        }
    } else if x < ins + 8 || g.phase == 1 && x < 80 {
        let k = tbl_key(g, r, "a");
        let name = *g.rng.pick(&["remove", "find_entry_remove", "find_entry_remove_drop"]);
        format!("a {} {}", name, k)
    } else {
        let y = g.rng.below(100);
        let k = tbl_key(g, r, "a");
        if y < 25 {
            format!("a find_entry_remove_reinsert {}", tbl_new_elem(g, k))
        } else if y < 55 {
            format!("a find {}", k)
        } else if y < 65 {
            format!("a findmut {} {}", k, 500 + g.rng.below(100))
        } else if y < 75 {
            format!("a {} {}", g.rng.pick(&["iter_hash", "iter_hash_mut"]), k)
        } else if y < 87 {
            tbl_many(g, r, "a")
        } else if y < 93 {
            format!("a iter {} iter", g.rng.below(6))
        } else {
            "a len".to_string()
        }
    }
}

/// Profile `xback-table` (C18, cross-back-end only): HashTable operations whose results do not depend on the
/// layout — insert_unique / remove / find / entry forms / the elements of one hash as a sorted set / capacity calls.
fn tbl_xback(g: &mut Gen, r: &dyn Runner) -> String {
    let x = g.rng.below(100);
    let tgt = if g.rng.chance(1, 5) { "b" } else { "a" };
    if x < 40 {
        let k = g.key();
        // no duplicates: `remove` / `find` of a duplicated key would depend on the layout
        if r.keys(tgt).contains(&k) {
            format!("{} find {}", tgt, k)
        } else {
            format!("{} insert_unique {}", tgt, tbl_new_elem(g, k))
        }
    } else if x < 58 {
        let k = tbl_key(g, r, tgt);
        format!("{} {} {}", tgt, g.rng.pick(&["remove", "find_entry_remove"]), k)
    } else if x < 66 {
        let k = tbl_key(g, r, tgt);
        format!("{} find {}", tgt, k)
    } else if x < 88 {
        let k = tbl_key(g, r, tgt);
        format!("{} x_iter_hash {}", tgt, k)
    } else if x < 92 {
        format!("{} reserve {}", tgt, g.rng.below(60))
    } else if x < 95 {
        format!("{} shrink_to_fit", tgt)
    } else if x < 97 {
        format!("{} shrink_to {}", tgt, g.rng.below(40))
    } else if x < 98 {
        format!("{} clear", tgt)
    } else {
        let k = tbl_key(g, r, tgt);
        format!("{} findmut {} {}", tgt, k, 500 + g.rng.below(100))
    }
}

pub fn next_table(g: &mut Gen, r: &dyn Runner) -> String {
    if g.profile == "xback-table" {
        return tbl_xback(g, r);
    }
    if g.profile == "table-churn" {
        return tbl_churn(g, r);
    }
    let x = g.rng.below(1000);
    let tgt = if g.rng.chance(1, 6) { "b" } else { "a" };
    let d = r.dump(tgt);
    if x < 250 {
        // duplicates are legal: the key may already be stored
        let k = g.key();
        format!("{} insert_unique {}", tgt, tbl_new_elem(g, k))
    } else if x < 330 {
        let k = tbl_key(g, r, tgt);
        let name = *g.rng.pick(&["remove", "find_entry_remove", "find_entry_remove_drop"]);
        format!("{} {} {}", tgt, name, k)
    } else if x < 370 {
        let k = tbl_key(g, r, tgt);
        format!("{} find_entry_remove_reinsert {}", tgt, tbl_new_elem(g, k))
    } else if x < 420 {
        let k = tbl_key(g, r, tgt);
        format!("{} {} {}", tgt, g.rng.pick(&["find", "get"]), k)
    } else if x < 450 {
        let k = tbl_key(g, r, tgt);
        format!("{} findmut {} {}", tgt, k, 500 + g.rng.below(100))
    } else if x < 500 {
        let k = g.key();
        format!("{} entry_insert {}", tgt, tbl_new_elem(g, k))
    } else if x < 540 {
        let k = g.key();
        format!("{} entry_or_insert {}", tgt, tbl_new_elem(g, k))
    } else if x < 570 {
        let k = tbl_key(g, r, tgt);
        format!("{} entry_and_modify {} {}", tgt, k, 700 + g.rng.below(100))
    } else if x < 650 {
        tbl_many(g, r, tgt)
    } else if x < 690 {
        let k = tbl_key(g, r, tgt);
        format!("{} {} {}", tgt, g.rng.pick(&["iter_hash", "iter_hash_mut"]), k)
    } else if x < 730 {
        let len = d.items as u64;
        let p = match g.rng.below(4) {
            0 => 0,
            1 => len,
            2 => len + 1 + g.rng.below(3),
            _ => g.rng.below(len + 1),
        };
        format!("{} iter {} {}{}", tgt, p, g.rng.pick(&["iter", "iter_mut"]), if g.rng.chance(1, 4) { " nth" } else { "" })
    } else if x < 760 {
        format!("{} retain", tgt)
    } else if x < 785 {
        format!("{} extract_if {}", tgt, g.rng.below(12))
    } else if x < 805 {
        if g.rng.chance(1, 3) { format!("{} drain_fold {}", tgt, g.rng.below(12)) } else { format!("{} drain {} {}", tgt, g.rng.below(12), if g.rng.chance(1, 5) { 1 } else { 0 }) }
    } else if x < 815 {
        if g.rng.chance(1, 3) { format!("{} into_iter_fold {}", tgt, g.rng.below(12)) } else { format!("{} into_iter {}", tgt, g.rng.below(12)) }
    } else if x < 830 {
        format!("{} clear", tgt)
    } else if x < 860 {
        let n = match g.rng.below(4) {
            0 => g.rng.below(4),
            1 => d.growth_left as u64 + g.rng.below(3),
            2 => g.rng.below(4 * (d.items + d.growth_left + 1) as u64),
            _ => g.rng.below(70),
        };
        format!("{} reserve {}", tgt, n)
    } else if x < 880 {
        let n = match g.rng.below(6) {
            0 => u64::MAX - g.rng.below(3),
            // (a zero-sized layout never overflows: only requests that overflow `cap * 8` there, the
            // others would really ask the system allocator for 2^59.. control bytes)
            1 if r.layout().0 == 0 => (i64::MAX as u64) / *g.rng.pick(&[1u64, 2]) + g.rng.below(3),
            1 => (i64::MAX as u64) / *g.rng.pick(&[1u64, 2, 16, 32, 33]) + g.rng.below(3),
            _ => g.rng.below(80),
        };
        format!("{} try_reserve {}", tgt, n)
    } else if x < 905 {
        format!("{} shrink_to {}", tgt, g.rng.below(2 * (d.items + d.growth_left + 1) as u64))
    } else if x < 920 {
        format!("{} shrink_to_fit", tgt)
    } else if x < 932 {
        format!("{} with_capacity {}", tgt, g.rng.below(60))
    } else if x < 957 {
        format!("{} clone_to_other", tgt)
    } else if x < 982 {
        format!("{} clone_from", tgt)
    } else if x < 992 {
        format!("{} len", tgt)
    } else {
        format!("{} nop", tgt)
    }
}
pub fn next_set(g: &mut Gen, r: &dyn Runner) -> String {
    if g.profile == "set-pairs" {
        set_pairs(g, r)
    } else {
        set_single(g, r)
    }
}

const SET_LAZY: &[&str] = &["union", "intersection", "difference", "symmetric_difference"];
const SET_PRED: &[&str] = &["is_subset", "is_superset", "is_disjoint", "eq"];
const SET_OPFORM: &[&str] = &["bitor", "bitand", "bitxor", "sub"];
const SET_ASSIGN: &[&str] = &["bitor_assign", "bitand_assign", "bitxor_assign", "sub_assign"];

fn set_other(tgt: &str) -> &'static str {
    if tgt == "a" {
        "b"
    } else {
        "a"
    }
}

/// A key different from `k` (universes have at least 4 keys).
fn set_other_key(g: &mut Gen, k: u64) -> u64 {
    (k + 1 + g.rng.below(g.universe.max(2) - 1)) % g.universe.max(2)
}

fn set_capacity_op(g: &mut Gen, r: &dyn Runner, tgt: &str) -> String {
    let d = r.dump(tgt);
    let cap = (d.items + d.growth_left) as u64;
    match g.rng.below(6) {
        0 => format!("{} reserve {}", tgt, d.growth_left as u64 + g.rng.below(3)),
        1 => format!("{} reserve {}", tgt, g.rng.below(3 * (cap + 2))),
        2 => format!("{} try_reserve {}", tgt, g.rng.below(60)),
        3 => format!("{} shrink_to {}", tgt, g.rng.below(2 * (cap + 1))),
        4 => format!("{} shrink_to {}", tgt, d.items as u64 + g.rng.below(3)),
        _ => format!("{} shrink_to_fit", tgt),
    }
}

/// Profile `set`: the whole single-set API plus occasional binary operations.
fn set_single(g: &mut Gen, r: &dyn Runner) -> String {
    let x = g.rng.below(1000);
    let k = g.key();
    let tgt = if g.rng.chance(1, 4) { "b" } else { "a" };
    if x < 200 {
        format!("{} insert {} {}", tgt, k, g.id())
    } else if x < 270 {
        format!("{} remove {}", tgt, k)
    } else if x < 300 {
        format!("{} take {}", tgt, k)
    } else if x < 325 {
        format!("{} contains {}", tgt, k)
    } else if x < 350 {
        format!("{} get {}", tgt, k)
    } else if x < 400 {
        format!("{} replace {} {}", tgt, k, g.id())
    } else if x < 440 {
        format!("{} get_or_insert {} {}", tgt, k, g.id())
    } else if x < 480 {
        if g.rng.chance(1, 4) { format!("{} get_or_insert_with_panic {}", tgt, k) } else { format!("{} get_or_insert_with {} {}", tgt, k, g.id()) }
    } else if x < 500 {
        let k2 = set_other_key(g, k);
        format!("{} get_or_insert_with_bad {} {} {}", tgt, k, k2, g.id())
    } else if x < 540 {
        format!("{} entry_insert {} {}", tgt, k, g.id())
    } else if x < 570 {
        format!("{} entry_or_insert {} {}", tgt, k, g.id())
    } else if x < 600 {
        format!("{} entry_remove {} {}", tgt, k, g.id())
    } else if x < 608 {
        format!("{} clear", tgt)
    } else if x < 670 {
        set_capacity_op(g, r, tgt)
    } else if x < 690 {
        format!("{} retain", tgt)
    } else if x < 705 {
        format!("{} extract_if {}", tgt, g.rng.below(12))
    } else if x < 717 {
        if g.rng.chance(1, 3) { format!("{} drain_fold {}", tgt, g.rng.below(12)) } else { format!("{} drain {} {}", tgt, g.rng.below(12), if g.rng.chance(1, 5) { 1 } else { 0 }) }
    } else if x < 725 {
        if g.rng.chance(1, 3) { format!("{} into_iter_fold {}", tgt, g.rng.below(12)) } else { format!("{} into_iter {}", tgt, g.rng.below(12)) }
    } else if x < 755 {
        let len = r.dump(tgt).items as u64;
        let p = match g.rng.below(4) {
            0 => 0,
            1 => len,
            2 => len + 1 + g.rng.below(3),
            _ => g.rng.below(len + 1),
        };
        format!("{} iter {}{}", tgt, p, if g.rng.chance(1, 4) { " iter nth" } else { "" })
    } else if x < 763 {
        format!("{} with_capacity {}", tgt, g.rng.below(60))
    } else if x < 780 {
        format!("{} clone_to_other", tgt)
    } else if x < 795 {
        format!("{} clone_from", tgt)
    } else if x < 800 {
        format!("{} nop", tgt)
    } else if x < 860 {
        let sp = if g.rng.chance(1, 5) { "self_" } else { "" };
        format!("{} {}{}", tgt, sp, g.rng.pick(SET_LAZY))
    } else if x < 910 {
        let sp = if g.rng.chance(1, 4) { "self_" } else { "" };
        format!("{} {}{}", tgt, sp, g.rng.pick(SET_PRED))
    } else if x < 955 {
        let sp = if g.rng.chance(1, 5) { "self_" } else { "" };
        format!("{} {}{}", tgt, sp, g.rng.pick(SET_OPFORM))
    } else {
        format!("{} {}", tgt, g.rng.pick(SET_ASSIGN))
    }
}

/// Keys of the pair universe that are / are not in `tgt`.
fn set_absent_key(g: &mut Gen, r: &dyn Runner, tgt: &str, u: u64) -> Option<u64> {
    let ks = r.keys(tgt);
    let absent: Vec<u64> = (0..u).filter(|k| !ks.contains(k)).collect();
    if absent.is_empty() {
        None
    } else {
        Some(*g.rng.pick(&absent))
    }
}

fn set_grow(g: &mut Gen, r: &dyn Runner, small: &str, u: u64) -> String {
    match set_absent_key(g, r, small, u) {
        Some(k) => format!("{} insert {} {}", small, k, g.id()),
        None => {
            let big = set_other(small);
            let k = g.present_key(r, big).unwrap_or(0);
            format!("{} remove {}", big, k)
        }
    }
}

/// One steering step towards the relation `mode`; `None` = the relation holds.
fn set_steer(g: &mut Gen, r: &dyn Runner, mode: u64, u: u64) -> Option<String> {
    let (ka, kb) = (r.keys("a"), r.keys("b"));
    let (la, lb) = (ka.len(), kb.len());
    let only_a: Vec<u64> = ka.iter().copied().filter(|k| !kb.contains(k)).collect();
    let only_b: Vec<u64> = kb.iter().copied().filter(|k| !ka.contains(k)).collect();
    let both: Vec<u64> = ka.iter().copied().filter(|k| kb.contains(k)).collect();
    match mode {
        // |a| < |b|
        0 => (la >= lb).then(|| set_grow(g, r, "b", u)),
        // |a| > |b|
        1 => (la <= lb).then(|| set_grow(g, r, "a", u)),
        // |a| = |b|
        2 => {
            if la < lb {
                Some(if g.rng.chance(1, 2) { set_grow(g, r, "a", u) } else { format!("b remove {}", g.rng.pick(&kb)) })
            } else if la > lb {
                Some(if g.rng.chance(1, 2) { set_grow(g, r, "b", u) } else { format!("a remove {}", g.rng.pick(&ka)) })
            } else {
                None
            }
        }
        // equal as sets, reached by different histories
        3 => {
            if let Some(&k) = only_a.last() {
                Some(if g.rng.chance(3, 4) { format!("b insert {} {}", k, g.id()) } else { format!("a take {}", k) })
            } else if let Some(&k) = only_b.first() {
                Some(if g.rng.chance(3, 4) { format!("a get_or_insert {} {}", k, g.id()) } else { format!("b remove {}", k) })
            } else {
                None
            }
        }
        // a is a subset of b
        4 => only_a.last().map(|&k| {
            if g.rng.chance(2, 3) {
                format!("b entry_insert {} {}", k, g.id())
            } else {
                format!("a remove {}", k)
            }
        }),
        // b is a subset of a
        5 => only_b.first().map(|&k| {
            if g.rng.chance(2, 3) {
                format!("a replace {} {}", k, g.id())
            } else {
                format!("b entry_remove {} {}", k, g.id())
            }
        }),
        // disjoint
        6 => both.first().map(|&k| format!("{} remove {}", if g.rng.chance(1, 2) { "a" } else { "b" }, k)),
        _ => None,
    }
}

/// The binary operations of one round: every lazy op / predicate / operator form in both directions
/// (shuffled), then assigning forms, each followed by a few observations of the new relation.
fn set_binary_script(seed: u64) -> Vec<String> {
    let mut rng = crate::tape::Rng::new(seed);
    let mut v: Vec<String> = Vec::new();
    for tgt in ["a", "b"] {
        for op in SET_LAZY.iter().chain(SET_PRED).chain(SET_OPFORM) {
            v.push(format!("{} {}", tgt, op));
        }
        // the same object on both sides
        for op in SET_PRED {
            v.push(format!("{} self_{}", tgt, op));
        }
        v.push(format!("{} self_{}", tgt, rng.pick(SET_LAZY)));
        v.push(format!("{} self_{}", tgt, rng.pick(SET_OPFORM)));
    }
    for i in (1..v.len()).rev() {
        let j = rng.below(i as u64 + 1) as usize;
        v.swap(i, j);
    }
    let n_assign = 1 + rng.below(3);
    for _ in 0..n_assign {
        let tgt = if rng.chance(1, 2) { "a" } else { "b" };
        v.push(format!("{} {}", tgt, rng.pick(SET_ASSIGN)));
        for _ in 0..(2 + rng.below(5)) {
            let t = if rng.chance(1, 2) { "a" } else { "b" };
            let op = match rng.below(3) {
                0 => *rng.pick(SET_LAZY),
                1 => *rng.pick(SET_PRED),
                _ => *rng.pick(SET_OPFORM),
            };
            v.push(format!("{} {}", t, op));
        }
    }
    v
}

/// Profile `set-pairs`: rounds of (build `a` and `b` by different histories, steer to a size /
/// inclusion relation, run every binary operation in both directions).
/// Round state lives in `g.phase` (position), `g.fresh_key` (round seed), `g.target_buckets` (build length).
fn set_pairs(g: &mut Gen, r: &dyn Runner) -> String {
    const STEER_MAX: u32 = 60;
    if g.phase == 0 {
        g.fresh_key = g.rng.next();
        // heavy rounds fill one set to a high load factor and then delete from it (tombstones)
        let heavy = (g.fresh_key >> 8) % 3 == 0;
        g.target_buckets = if heavy { 44 + g.rng.below(24) as usize } else { 3 + g.rng.below(24) as usize };
        g.phase = 1;
        // sometimes start the round from fresh tables of unrelated capacities
        if g.rng.chance(1, 4) {
            let tgt = if g.rng.chance(1, 2) { "a" } else { "b" };
            return format!("{} with_capacity {}", tgt, g.rng.below(50));
        }
    }
    let seed = g.fresh_key;
    let mode = seed % 8;
    let heavy = (seed >> 8) % 3 == 0;
    // keys beyond the planned universe hash by the default mixer
    let u = if heavy { 64 } else { g.universe.min(40) };
    let blen = g.target_buckets as u32;
    if g.phase <= blen && heavy {
        g.phase += 1;
        let htgt = if (seed >> 12) & 1 == 0 { "b" } else { "a" };
        let d = r.dump(htgt);
        // fill until the table sits exactly at its capacity with at least two groups' worth of
        // elements, then delete from inside the full runs
        let full = !d.is_singleton && d.growth_left == 0 && d.items >= 28;
        let filling = !full && g.phase + 8 <= blen && (seed >> 16) & 1 == 0 || (!full && d.items < 20);
        if full && (seed >> 16) & 1 == 0 {
            g.fresh_key ^= 1 << 16;
            g.target_buckets = g.phase as usize + 3 + g.rng.below(8) as usize;
        }
        let x = g.rng.below(100);
        return if filling && x < 92 {
            set_grow(g, r, htgt, u)
        } else if !filling && x < 70 {
            match g.present_key(r, htgt) {
                Some(k) => format!("{} remove {}", htgt, k),
                None => format!("{} insert {} {}", htgt, g.rng.below(u), g.id()),
            }
        } else if !filling && x < 80 {
            format!("{} retain", htgt)
        } else {
            format!("{} insert {} {}", set_other(htgt), g.rng.below(u), g.id())
        };
    }
    if g.phase <= blen {
        g.phase += 1;
        // different histories: `a` mostly grows, `b` churns and changes capacity
        let tgt = if g.rng.chance(1, 2) { "a" } else { "b" };
        let x = g.rng.below(100);
        let k = g.rng.below(u);
        let churn = if tgt == "b" { 30 } else { 12 };
        return if x < 60 - churn / 2 {
            format!("{} insert {} {}", tgt, k, g.id())
        } else if x < 60 + churn / 2 {
            match g.present_key(r, tgt) {
                Some(k) => format!("{} remove {}", tgt, k),
                None => format!("{} remove {}", tgt, k),
            }
        } else if x < 88 {
            set_capacity_op(g, r, tgt)
        } else if x < 94 {
            format!("{} replace {} {}", tgt, k, g.id())
        } else {
            format!("{} retain", tgt)
        };
    }
    if g.phase <= blen + STEER_MAX {
        match set_steer(g, r, mode, u) {
            Some(op) => {
                g.phase += 1;
                return op;
            }
            None => g.phase = blen + STEER_MAX + 1,
        }
    }
    let script = set_binary_script(seed);
    let idx = (g.phase - blen - STEER_MAX - 1) as usize;
    if idx < script.len() {
        g.phase += 1;
        return script[idx].clone();
    }
    g.phase = 0;
    set_pairs(g, r)
}
/// Profiles `entry` (mixed map traffic, ~60% entry-style ops over a small universe) and
/// `entry-full` (first steer the table to `growth_left == 0`, to a tombstone-laden state or to the
/// unallocated singleton, then issue entry ops there).
pub fn next_entry(g: &mut Gen, r: &dyn Runner) -> String {
    if g.profile == "entry-full" {
        if let Some(op) = ent_steer(g, r) {
            return op;
        }
    }
    if g.rng.chance(1, 16) {
        // a user closure panicking inside an entry method
        let k = match g.present_key(r, "a") {
            Some(k) if g.rng.chance(3, 4) => k,
            _ => g.key(),
        };
        return match g.rng.below(7) {
            0 => format!("a entry_and_replace_panic {} {}", k, g.id()),
            1 => format!("a entry_or_insert_with_panic {} {}", k, g.id()),
            2 => format!("a entry_and_modify_panic {} {}", k, g.id()),
            3 | 4 => format!(
                "a raw_replace_panic {} {} {}",
                *g.rng.pick(&["raw_from_key", "raw_from_key_hashed", "raw_from_hash"]),
                k,
                if g.rng.chance(1, 2) { "and" } else { "occ" }
            ),
            _ => format!("a entry_replace_panic {} {}", k, g.id()),
        };
    }
    if g.rng.chance(1, 14) {
        // a raw entry looked up with one (usually absent) key and filled with another absent key, then looked up
        let present = r.keys("a");
        let absent = |g: &mut Gen| (0..12).map(|_| g.key()).find(|k| !present.contains(k));
        if let (Some(k), Some(ks)) = (absent(g), absent(g)) {
            if k != ks {
                let k = if g.rng.chance(1, 8) { g.present_key(r, "a").unwrap_or(k) } else { k };
                let (kid, vid) = (g.id(), g.id());
                g.script.push_back(format!("a {} {}", *g.rng.pick(&["get", "raw_get", "contains", "remove_entry", "get"]), ks));
                return format!(
                    "a raw_other {} {} {} {} {} {} {}",
                    *g.rng.pick(&["raw_from_key", "raw_from_key_hashed", "raw_from_hash"]),
                    k,
                    *g.rng.pick(&["vac_insert", "or_insert"]),
                    ks,
                    kid,
                    vid,
                    100 + g.rng.below(50)
                );
            }
        }
    }
    if g.rng.chance(6, 10) {
        let tgt = if g.rng.chance(1, 8) { "b" } else { "a" };
        ent_op(g, r, tgt, 50)
    } else {
        g.mixed(r)
    }
}

/// A key of the universe that is not stored in `tgt` (a few random probes).
fn ent_absent_key(g: &mut Gen, r: &dyn Runner, tgt: &str) -> Option<u64> {
    let ks = r.keys(tgt);
    for _ in 0..12 {
        let k = g.key();
        if !ks.contains(&k) {
            return Some(k);
        }
    }
    (0..g.universe).find(|k| !ks.contains(k))
}

/// Key for an entry op: absent with probability `absent_pct`%, else present (when possible).
fn ent_key(g: &mut Gen, r: &dyn Runner, tgt: &str, absent_pct: u64) -> u64 {
    if g.rng.chance(absent_pct, 100) {
        if let Some(k) = ent_absent_key(g, r, tgt) {
            return k;
        }
    }
    if g.rng.chance(9, 10) {
        if let Some(k) = g.present_key(r, tgt) {
            return k;
        }
    }
    g.key()
}

fn ent_val(g: &mut Gen) -> String {
    format!("{} {}", g.id(), 100 + g.rng.below(50))
}

fn ent_keep(g: &mut Gen) -> &'static str {
    if g.rng.chance(1, 2) {
        "keep"
    } else {
        "remove"
    }
}

/// Chain of `Entry` methods.
fn ent_chain(g: &mut Gen) -> String {
    let nv = 500 + g.rng.below(100);
    match g.rng.below(22) {
        0 | 1 | 2 => format!("insert {}", ent_val(g)),
        3 | 4 | 5 => format!("or_insert {}", ent_val(g)),
        6 => format!("or_insert_with {}", ent_val(g)),
        7 => format!("or_insert_with_key {}", ent_val(g)),
        8 => format!("and_modify {} or_insert {}", nv, ent_val(g)),
        9 => "key".into(),
        10 => "drop".into(),
        11 | 12 => "occ_remove".into(),
        13 => "occ_remove_entry".into(),
        14 => format!("occ_insert {}", ent_val(g)),
        15 => format!("{} {}", if g.rng.chance(1, 2) { "occ_into_mut" } else { "occ_get_mut" }, nv),
        16 => format!("replace_entry_with {} {}", ent_keep(g), nv),
        17 => format!("and_replace_entry_with {} {}", ent_keep(g), nv),
        18 | 19 => format!("vac_insert {}", ent_val(g)),
        20 => format!("vac_insert_entry {}", ent_val(g)),
        _ => "vac_into_key".into(),
    }
}

fn ent_ref_chain(g: &mut Gen) -> String {
    let nv = 500 + g.rng.below(100);
    match g.rng.below(8) {
        0 | 1 => format!("insert {}", ent_val(g)),
        2 | 3 => format!("or_insert {}", ent_val(g)),
        4 => format!("or_insert_with {}", ent_val(g)),
        5 => format!("and_modify {} or_insert {}", nv, ent_val(g)),
        6 => "drop".into(),
        _ => "key".into(),
    }
}

fn ent_rustc_chain(g: &mut Gen) -> String {
    match g.rng.below(10) {
        0 | 1 => format!("insert {}", ent_val(g)),
        2 | 3 => format!("or_insert {}", ent_val(g)),
        4 => "occ_remove".into(),
        5 => format!("occ_insert {}", ent_val(g)),
        6 | 7 => format!("vac_insert {}", ent_val(g)),
        8 => format!("vac_insert_entry {}", ent_val(g)),
        _ => "drop".into(),
    }
}

fn ent_raw_chain(g: &mut Gen) -> String {
    let nv = 500 + g.rng.below(100);
    match g.rng.below(16) {
        0 | 1 => format!("insert {} {}", g.id(), ent_val(g)),
        2 | 3 => format!("or_insert {} {}", g.id(), ent_val(g)),
        4 | 5 => format!("vac_insert {} {}", g.id(), ent_val(g)),
        6 => format!("vac_insert_hashed {} {}", g.id(), ent_val(g)),
        7 => format!("vac_insert_with_hasher {} {}", g.id(), ent_val(g)),
        8 => "occ_remove".into(),
        9 => "occ_remove_entry".into(),
        10 => format!("occ_insert {}", ent_val(g)),
        11 => format!("occ_insert_key {}", g.id()),
        12 => format!("{} {}", *g.rng.pick(&["and_modify", "into_key_value", "key_mut_get_mut"]), nv),
        13 | 14 => format!("replace_entry_with {} {}", ent_keep(g), nv),
        _ => "drop".into(),
    }
}

fn ent_items(g: &mut Gen, r: &dyn Runner, tgt: &str, max: u64) -> String {
    let cnt = g.rng.below(max + 1);
    let mut s = format!("{}", cnt);
    for _ in 0..cnt {
        let k = ent_key(g, r, tgt, 60);
        let kid = g.id();
        s.push_str(&format!(" {} {} {}", k, kid, ent_val(g)));
    }
    s
}

/// One entry-style op on `tgt`; keys are absent with probability `absent_pct`%.
fn ent_op(g: &mut Gen, r: &dyn Runner, tgt: &str, absent_pct: u64) -> String {
    let x = g.rng.below(100);
    let k = ent_key(g, r, tgt, absent_pct);
    if x < 30 {
        let kid = g.id();
        format!("{} entry {} {} {}", tgt, k, kid, ent_chain(g))
    } else if x < 40 {
        let kid = g.id();
        format!("{} entry_ref {} {} {}", tgt, k, kid, ent_ref_chain(g))
    } else if x < 45 {
        let kid = g.id();
        format!("{} try_insert {} {} {}", tgt, k, kid, ent_val(g))
    } else if x < 63 {
        let mode = *g.rng.pick(&["raw_from_key", "raw_from_key", "raw_from_key_hashed", "raw_from_hash"]);
        format!("{} {} {} {}", tgt, mode, k, ent_raw_chain(g))
    } else if x < 66 {
        format!("{} {} {}", tgt, if g.rng.chance(1, 2) { "raw_get" } else { "raw_get_hash" }, k)
    } else if x < 80 {
        let kid = g.id();
        format!("{} rustc_entry {} {} {}", tgt, k, kid, ent_rustc_chain(g))
    } else if x < 84 {
        let form = *g.rng.pick(&["extend", "extend", "extend_r0", "extend_r1"]);
        format!("{} {} {}", tgt, form, ent_items(g, r, tgt, 6))
    } else if x < 86 {
        format!("{} from_iter {}", tgt, ent_items(g, r, tgt, 8))
    } else if x < 91 {
        // mostly distinct requests; duplicates of present keys make the call panic
        let cnt = g.rng.below(5);
        let mut ks: Vec<u64> = Vec::new();
        for _ in 0..cnt {
            let mut k = ent_key(g, r, tgt, 30);
            if ks.contains(&k) && !g.rng.chance(1, 6) {
                k = g.key();
            }
            ks.push(k);
        }
        let name = if g.rng.chance(1, 2) { "get_many_mut" } else { "get_many_key_value_mut" };
        let ks: Vec<String> = ks.iter().map(|k| k.to_string()).collect();
        format!("{} {} {}", tgt, name, ks.join(" ")).trim_end().to_string()
    } else if x < 94 {
        let k = if g.rng.chance(1, 6) { k } else { g.present_key(r, tgt).unwrap_or(k) };
        format!("{} index {}", tgt, k)
    } else if x < 97 {
        match ent_absent_key(g, r, tgt) {
            Some(k) => {
                let kid = g.id();
                format!("{} insert_unique_unchecked {} {} {}", tgt, k, kid, ent_val(g))
            }
            None => format!("{} values_mut_set {}", tgt, 700 + g.rng.below(50)),
        }
    } else if x < 98 {
        format!("{} into_keys{} {}", tgt, if g.rng.chance(1, 3) { "_fold" } else { "" }, g.rng.below(8))
    } else if x < 99 {
        // (no fold variant: `IntoValues::fold` drops each key AFTER the consumer ran, `next` before — the
        // two differ in which destructor call a scheduled destructor panic hits)
        format!("{} into_values {}", tgt, g.rng.below(8))
    } else {
        format!("{} values_mut_set {}", tgt, 700 + g.rng.below(50))
    }
}

/// A stored key of `a` whose removal leaves a tombstone (its bucket sits in a run of at least one
/// group width of non-EMPTY control bytes), if there is one.
pub fn ent_tomb_key(g: &mut Gen, r: &dyn Runner) -> Option<u64> {
    let d = r.dump("a");
    if d.is_singleton {
        return None;
    }
    let w = hashbrown::verif::GROUP_WIDTH;
    let n = d.bucket_mask + 1;
    if n < w {
        return None;
    }
    let keys = r.keys("a");
    let full: Vec<usize> = (0..n).filter(|&i| d.ctrl[i] & 0x80 == 0).collect();
    let mut cand = Vec::new();
    for (j, &i) in full.iter().enumerate() {
        let back = (1..=w).take_while(|&s| d.ctrl[(i + n - s) % n] != 0xFF).count();
        let fwd = (0..w).take_while(|&s| d.ctrl[(i + s) % n] != 0xFF).count();
        if back + fwd >= w && j < keys.len() {
            cand.push(keys[j]);
        }
    }
    if cand.is_empty() {
        None
    } else {
        Some(*g.rng.pick(&cand))
    }
}

/// `entry-full`: phases 0 = pick a goal; 10 = fill to `growth_left == 0`; 20 = fill, 21 = punch
/// tombstones; 30 = unallocated; 1 = issue entry ops in the reached state (`fresh_key` counts them).
fn ent_steer(g: &mut Gen, r: &dyn Runner) -> Option<String> {
    let d = r.dump("a");
    let deleted = if d.is_singleton { 0 } else { d.ctrl[..=d.bucket_mask].iter().filter(|&&b| b == 0x80).count() };
    match g.phase {
        0 => {
            g.phase = *g.rng.pick(&[10u32, 10, 20, 20, 30, 2]);
            g.fresh_key = 0;
            ent_steer(g, r)
        }
        // a stretch of unsteered traffic
        2 => {
            g.fresh_key += 1;
            if g.fresh_key > 12 {
                g.phase = 0;
            }
            None
        }
        10 | 20 => {
            g.fresh_key += 1;
            if !d.is_singleton && d.growth_left == 0 {
                g.phase = if g.phase == 10 { 1 } else { 21 };
                g.fresh_key = 0;
                return ent_steer(g, r);
            }
            if g.fresh_key > 160 {
                g.phase = 0;
                return None;
            }
            match ent_absent_key(g, r, "a") {
                // fill through the entry APIs as well
                Some(k) => Some(match g.rng.below(4) {
                    0 => {
                        let kid = g.id();
                        format!("a entry {} {} or_insert {}", k, kid, ent_val(g))
                    }
                    1 => {
                        let kid = g.id();
                        format!("a raw_from_key {} vac_insert {} {}", k, kid, ent_val(g))
                    }
                    _ => format!("a {}", g.insert(k)),
                }),
                None => {
                    // universe exhausted: shrinking may still land on a full table
                    g.phase = 1;
                    g.fresh_key = 0;
                    Some("a shrink_to_fit".into())
                }
            }
        }
        21 => {
            // remove about half of the elements (tombstones where the runs are full)
            g.fresh_key += 1;
            let want = (d.items + d.growth_left + deleted) / 2;
            if d.items <= want || g.fresh_key > 80 || d.items == 0 {
                g.phase = 1;
                g.fresh_key = 0;
                return ent_steer(g, r);
            }
            let k = match ent_tomb_key(g, r) {
                Some(k) => k,
                None => g.present_key(r, "a").unwrap(),
            };
            Some(match g.rng.below(4) {
                0 => {
                    let kid = g.id();
                    format!("a entry {} {} occ_remove", k, kid)
                }
                1 => format!("a raw_from_hash {} occ_remove_entry", k),
                _ => format!("a remove {}", k),
            })
        }
        30 => {
            g.phase = 1;
            g.fresh_key = 0;
            Some(match g.rng.below(3) {
                0 => "a with_capacity 0".to_string(),
                1 => "a into_keys 0".to_string(),
                _ => "a from_iter 0".to_string(),
            })
        }
        _ => {
            // in the steered state: entry ops, mostly on absent keys (these need a free slot)
            g.fresh_key += 1;
            let still = d.is_singleton || d.growth_left == 0;
            if g.fresh_key > 6 || (!still && g.fresh_key > 2) {
                g.phase = 0;
            }
            Some(ent_op(g, r, "a", 75))
        }
    }
}
