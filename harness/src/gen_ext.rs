//! Generators for the table / set / entry profiles (extension point).
use crate::exec::Runner;
use crate::gen::Gen;

pub fn next_table(g: &mut Gen, r: &dyn Runner) -> String {
    g.mixed(r)
}
pub fn next_set(g: &mut Gen, r: &dyn Runner) -> String {
    if g.profile == "set-pairs" {
        set_pairs(g, r)
    } else {
        set_single(g, r)
    }
}

const SET_LAZY: &[&str] = &["union", "intersection", "difference", "symmetric_difference"];
const SET_PRED: &[&str] = &["is_subset", "is_superset", "is_disjoint", "eq"];
const SET_OPFORM: &[&str] = &["bitor", "bitand", "bitxor", "sub"];
const SET_ASSIGN: &[&str] = &["bitor_assign", "bitand_assign", "bitxor_assign", "sub_assign"];

fn set_other(tgt: &str) -> &'static str {
    if tgt == "a" {
        "b"
    } else {
        "a"
    }
}

/// A key different from `k` (universes have at least 4 keys).
fn set_other_key(g: &mut Gen, k: u64) -> u64 {
    (k + 1 + g.rng.below(g.universe.max(2) - 1)) % g.universe.max(2)
}

fn set_capacity_op(g: &mut Gen, r: &dyn Runner, tgt: &str) -> String {
    let d = r.dump(tgt);
    let cap = (d.items + d.growth_left) as u64;
    match g.rng.below(6) {
        0 => format!("{} reserve {}", tgt, d.growth_left as u64 + g.rng.below(3)),
        1 => format!("{} reserve {}", tgt, g.rng.below(3 * (cap + 2))),
        2 => format!("{} try_reserve {}", tgt, g.rng.below(60)),
        3 => format!("{} shrink_to {}", tgt, g.rng.below(2 * (cap + 1))),
        4 => format!("{} shrink_to {}", tgt, d.items as u64 + g.rng.below(3)),
        _ => format!("{} shrink_to_fit", tgt),
    }
}

/// Profile `set`: the whole single-set API plus occasional binary operations.
fn set_single(g: &mut Gen, r: &dyn Runner) -> String {
    let x = g.rng.below(1000);
    let k = g.key();
    let tgt = if g.rng.chance(1, 4) { "b" } else { "a" };
    if x < 200 {
        format!("{} insert {} {}", tgt, k, g.id())
    } else if x < 270 {
        format!("{} remove {}", tgt, k)
    } else if x < 300 {
        format!("{} take {}", tgt, k)
    } else if x < 325 {
        format!("{} contains {}", tgt, k)
    } else if x < 350 {
        format!("{} get {}", tgt, k)
    } else if x < 400 {
        format!("{} replace {} {}", tgt, k, g.id())
    } else if x < 440 {
        format!("{} get_or_insert {} {}", tgt, k, g.id())
    } else if x < 480 {
        format!("{} get_or_insert_with {} {}", tgt, k, g.id())
    } else if x < 500 {
        let k2 = set_other_key(g, k);
        format!("{} get_or_insert_with_bad {} {} {}", tgt, k, k2, g.id())
    } else if x < 540 {
        format!("{} entry_insert {} {}", tgt, k, g.id())
    } else if x < 570 {
        format!("{} entry_or_insert {} {}", tgt, k, g.id())
    } else if x < 600 {
        format!("{} entry_remove {} {}", tgt, k, g.id())
    } else if x < 608 {
        format!("{} clear", tgt)
    } else if x < 670 {
        set_capacity_op(g, r, tgt)
    } else if x < 690 {
        format!("{} retain", tgt)
    } else if x < 705 {
        format!("{} extract_if {}", tgt, g.rng.below(12))
    } else if x < 717 {
        format!("{} drain {} {}", tgt, g.rng.below(12), if g.rng.chance(1, 5) { 1 } else { 0 })
    } else if x < 725 {
        format!("{} into_iter {}", tgt, g.rng.below(12))
    } else if x < 755 {
        let len = r.dump(tgt).items as u64;
        let p = match g.rng.below(4) {
            0 => 0,
            1 => len,
            2 => len + 1 + g.rng.below(3),
            _ => g.rng.below(len + 1),
        };
        format!("{} iter {}", tgt, p)
    } else if x < 763 {
        format!("{} with_capacity {}", tgt, g.rng.below(60))
    } else if x < 780 {
        format!("{} clone_to_other", tgt)
    } else if x < 795 {
        format!("{} clone_from", tgt)
    } else if x < 800 {
        format!("{} nop", tgt)
    } else if x < 860 {
        format!("{} {}", tgt, g.rng.pick(SET_LAZY))
    } else if x < 910 {
        format!("{} {}", tgt, g.rng.pick(SET_PRED))
    } else if x < 955 {
        format!("{} {}", tgt, g.rng.pick(SET_OPFORM))
    } else {
        format!("{} {}", tgt, g.rng.pick(SET_ASSIGN))
    }
}

/// Keys of the pair universe that are / are not in `tgt`.
fn set_absent_key(g: &mut Gen, r: &dyn Runner, tgt: &str, u: u64) -> Option<u64> {
    let ks = r.keys(tgt);
    let absent: Vec<u64> = (0..u).filter(|k| !ks.contains(k)).collect();
    if absent.is_empty() {
        None
    } else {
        Some(*g.rng.pick(&absent))
    }
}

fn set_grow(g: &mut Gen, r: &dyn Runner, small: &str, u: u64) -> String {
    match set_absent_key(g, r, small, u) {
        Some(k) => format!("{} insert {} {}", small, k, g.id()),
        None => {
            let big = set_other(small);
            let k = g.present_key(r, big).unwrap_or(0);
            format!("{} remove {}", big, k)
        }
    }
}

/// One steering step towards the relation `mode`; `None` = the relation holds.
fn set_steer(g: &mut Gen, r: &dyn Runner, mode: u64, u: u64) -> Option<String> {
    let (ka, kb) = (r.keys("a"), r.keys("b"));
    let (la, lb) = (ka.len(), kb.len());
    let only_a: Vec<u64> = ka.iter().copied().filter(|k| !kb.contains(k)).collect();
    let only_b: Vec<u64> = kb.iter().copied().filter(|k| !ka.contains(k)).collect();
    let both: Vec<u64> = ka.iter().copied().filter(|k| kb.contains(k)).collect();
    match mode {
        // |a| < |b|
        0 => (la >= lb).then(|| set_grow(g, r, "b", u)),
        // |a| > |b|
        1 => (la <= lb).then(|| set_grow(g, r, "a", u)),
        // |a| = |b|
        2 => {
            if la < lb {
                Some(if g.rng.chance(1, 2) { set_grow(g, r, "a", u) } else { format!("b remove {}", g.rng.pick(&kb)) })
            } else if la > lb {
                Some(if g.rng.chance(1, 2) { set_grow(g, r, "b", u) } else { format!("a remove {}", g.rng.pick(&ka)) })
            } else {
                None
            }
        }
        // equal as sets, reached by different histories
        3 => {
            if let Some(&k) = only_a.last() {
                Some(if g.rng.chance(3, 4) { format!("b insert {} {}", k, g.id()) } else { format!("a take {}", k) })
            } else if let Some(&k) = only_b.first() {
                Some(if g.rng.chance(3, 4) { format!("a get_or_insert {} {}", k, g.id()) } else { format!("b remove {}", k) })
            } else {
                None
            }
        }
        // a is a subset of b
        4 => only_a.last().map(|&k| {
            if g.rng.chance(2, 3) {
                format!("b entry_insert {} {}", k, g.id())
            } else {
                format!("a remove {}", k)
            }
        }),
        // b is a subset of a
        5 => only_b.first().map(|&k| {
            if g.rng.chance(2, 3) {
                format!("a replace {} {}", k, g.id())
            } else {
                format!("b entry_remove {} {}", k, g.id())
            }
        }),
        // disjoint
        6 => both.first().map(|&k| format!("{} remove {}", if g.rng.chance(1, 2) { "a" } else { "b" }, k)),
        _ => None,
    }
}

/// The binary operations of one round: every lazy op / predicate / operator form in both directions
/// (shuffled), then assigning forms, each followed by a few observations of the new relation.
fn set_binary_script(seed: u64) -> Vec<String> {
    let mut rng = crate::tape::Rng::new(seed);
    let mut v: Vec<String> = Vec::new();
    for tgt in ["a", "b"] {
        for op in SET_LAZY.iter().chain(SET_PRED).chain(SET_OPFORM) {
            v.push(format!("{} {}", tgt, op));
        }
    }
    for i in (1..v.len()).rev() {
        let j = rng.below(i as u64 + 1) as usize;
        v.swap(i, j);
    }
    let n_assign = 1 + rng.below(3);
    for _ in 0..n_assign {
        let tgt = if rng.chance(1, 2) { "a" } else { "b" };
        v.push(format!("{} {}", tgt, rng.pick(SET_ASSIGN)));
        for _ in 0..(2 + rng.below(5)) {
            let t = if rng.chance(1, 2) { "a" } else { "b" };
            let op = match rng.below(3) {
                0 => *rng.pick(SET_LAZY),
                1 => *rng.pick(SET_PRED),
                _ => *rng.pick(SET_OPFORM),
            };
            v.push(format!("{} {}", t, op));
        }
    }
    v
}

/// Profile `set-pairs`: rounds of (build `a` and `b` by different histories, steer to a size /
/// inclusion relation, run every binary operation in both directions).
/// Round state lives in `g.phase` (position), `g.fresh_key` (round seed), `g.target_buckets` (build length).
fn set_pairs(g: &mut Gen, r: &dyn Runner) -> String {
    const STEER_MAX: u32 = 60;
    if g.phase == 0 {
        g.fresh_key = g.rng.next();
        // heavy rounds fill one set to a high load factor and then delete from it (tombstones)
        let heavy = (g.fresh_key >> 8) % 3 == 0;
        g.target_buckets = if heavy { 44 + g.rng.below(24) as usize } else { 3 + g.rng.below(24) as usize };
        g.phase = 1;
        // sometimes start the round from fresh tables of unrelated capacities
        if g.rng.chance(1, 4) {
            let tgt = if g.rng.chance(1, 2) { "a" } else { "b" };
            return format!("{} with_capacity {}", tgt, g.rng.below(50));
        }
    }
    let seed = g.fresh_key;
    let mode = seed % 8;
    let heavy = (seed >> 8) % 3 == 0;
    // keys beyond the planned universe hash by the default mixer
    let u = if heavy { 64 } else { g.universe.min(40) };
    let blen = g.target_buckets as u32;
    if g.phase <= blen && heavy {
        g.phase += 1;
        let htgt = if (seed >> 12) & 1 == 0 { "b" } else { "a" };
        let d = r.dump(htgt);
        // fill until the table sits exactly at its capacity with at least two groups' worth of
        // elements, then delete from inside the full runs
        let full = !d.is_singleton && d.growth_left == 0 && d.items >= 28;
        let filling = !full && g.phase + 8 <= blen && (seed >> 16) & 1 == 0 || (!full && d.items < 20);
        if full && (seed >> 16) & 1 == 0 {
            g.fresh_key ^= 1 << 16;
            g.target_buckets = g.phase as usize + 3 + g.rng.below(8) as usize;
        }
        let x = g.rng.below(100);
        return if filling && x < 92 {
            set_grow(g, r, htgt, u)
        } else if !filling && x < 70 {
            match g.present_key(r, htgt) {
                Some(k) => format!("{} remove {}", htgt, k),
                None => format!("{} insert {} {}", htgt, g.rng.below(u), g.id()),
            }
        } else if !filling && x < 80 {
            format!("{} retain", htgt)
        } else {
            format!("{} insert {} {}", set_other(htgt), g.rng.below(u), g.id())
        };
    }
    if g.phase <= blen {
        g.phase += 1;
        // different histories: `a` mostly grows, `b` churns and changes capacity
        let tgt = if g.rng.chance(1, 2) { "a" } else { "b" };
        let x = g.rng.below(100);
        let k = g.rng.below(u);
        let churn = if tgt == "b" { 30 } else { 12 };
        return if x < 60 - churn / 2 {
            format!("{} insert {} {}", tgt, k, g.id())
        } else if x < 60 + churn / 2 {
            match g.present_key(r, tgt) {
                Some(k) => format!("{} remove {}", tgt, k),
                None => format!("{} remove {}", tgt, k),
            }
        } else if x < 88 {
            set_capacity_op(g, r, tgt)
        } else if x < 94 {
            format!("{} replace {} {}", tgt, k, g.id())
        } else {
            format!("{} retain", tgt)
        };
    }
    if g.phase <= blen + STEER_MAX {
        match set_steer(g, r, mode, u) {
            Some(op) => {
                g.phase += 1;
                return op;
            }
            None => g.phase = blen + STEER_MAX + 1,
        }
    }
    let script = set_binary_script(seed);
    let idx = (g.phase - blen - STEER_MAX - 1) as usize;
    if idx < script.len() {
        g.phase += 1;
        return script[idx].clone();
    }
    g.phase = 0;
    set_pairs(g, r)
}
pub fn next_entry(g: &mut Gen, r: &dyn Runner) -> String {
    g.mixed(r)
}
