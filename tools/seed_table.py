#!/usr/bin/env python3
"""Print the markdown table of /verif/seeded/*/meta.json (for DESIGN.md §13)."""
import json, glob, re
rows = []
for d in sorted(glob.glob('/verif/seeded/*/meta.json')):
    m = json.load(open(d))
    res = []
    for r in m['checks_run']['results']:
        v = 'caught' if r['violation'] and not r['no_failing_input'] else ('tie only' if r['violation'] else 'silent')
        why = re.sub(r'\s+', ' ', r['first_line'])
        mm = re.search(r'(ORACLE-[A-Z]+|SIZE-HINT-INEXACT|NOT-FUSED|panic:other|crashed or aborted|rustc accepts|T1:|SSE2 and portable|correspondence)', why)
        res.append('%s: %s%s' % (r['check'], v, (' (' + mm.group(1) + ')') if mm and v != 'silent' else ''))
    s = re.sub(r'\s+', ' ', m.get('summary') or '')[:170]
    rows.append('| %s | %s | %s | %s |' % (m['id'], m['breaks_property'], s.replace('|', '/'), '; '.join(res)))
print('| seed | breaks | change (abridged) | quick checks run against it |')
print('|---|---|---|---|')
print('\n'.join(rows))
