#!/bin/bash
# Usage: tools/seed_pipeline.sh <name e.g. C05-a> <check ids...>
# confirm (scratch worktree) -> evaluate the quick checks against the change (isolated copy) -> record under /verif/seeded/<name>/
set -u
NAME=$1; shift
SRC=/tmp/seed/$NAME.out
cd /verif
CONF=$(tools/confirm_seed.sh $SRC $NAME 2>&1)
echo "$CONF" > /tmp/seed/$NAME.confirm
J=$(echo "$CONF" | head -1)
ok=$(echo "$J" | python3 -c "import json,sys; j=json.loads(sys.stdin.readline()); print(int(j.get('apply') and j['build_rc']==0 and j['suite_rc']==0 and j['suite_failed']==0 and ((j['demo_with_rc']!=0 and j['demo_without_rc']==0) if not j.get('compile_demo') else (j.get('with_compile_errors',1)==0 and j.get('without_compile_errors',0)>0 and j['demo_without_rc']!=0))))" 2>/dev/null)
if [ "$ok" != "1" ]; then echo "$NAME NOT CONFIRMED: $J"; exit 1; fi
tools/eval_seed_iso.sh $SRC $NAME "$@" > /tmp/seed/$NAME.eval 2>&1
mkdir -p seeded/$NAME
cp $SRC/patch.diff seeded/$NAME/patch.diff
cp $SRC/seed_demo.rs seeded/$NAME/seed_demo.rs
python3 - "$NAME" "$J" <<'PY'
import json,sys,re,os
name, conf = sys.argv[1], json.loads(sys.argv[2])
src='/tmp/seed/%s.out'%name
try: meta=json.load(open(src+'/meta.json'))
except Exception as e: meta={'property':name.split('-')[0],'summary':'(meta.json of the sub-agent unreadable: %s)'%e}
res=[]
for l in open('/tmp/seed/%s.eval'%name):
    m=re.match(r'(\S+) (C\d+) rc=(\d+) (.*)',l)
    if m:
        tail=m.group(4)
        res.append(dict(check=m.group(2), exit=int(m.group(3)), violation=('VIOLATION' in tail), no_failing_input=('no-failing-input-found' in tail.split('::')[0]), first_line=tail.split('::',1)[-1].strip()[:300]))
out=dict(id=name, breaks_property=meta.get('property',name.split('-')[0]), summary=meta.get('summary'), needs_to_manifest=meta.get('needs'),
         why_existing_tests_pass=meta.get('why_tests_pass'), demo_features=meta.get('features',''), demo_rustflags=meta.get('rustflags',''),
         origin='independent sub-agent given only the property text and a scratch worktree of /repo',
         confirmed=dict(how='tools/confirm_seed.sh (scratch worktree of /repo HEAD, removed afterwards): cargo build --features rayon,serde,raw-entry,rustc-internal-api; cargo test --workspace --no-fail-fast --offline; cargo test --test seed_demo with and without the change', **conf),
         checks_run=dict(how='tools/eval_seed_iso.sh: ./check <id> quick with the change applied to a scratch worktree + private copy of /verif pointed at it', results=res))
json.dump(out, open('/verif/seeded/%s/meta.json'%name,'w'), indent=1)
print(name, 'confirmed;', ', '.join('%s:%s' % (r['check'], 'CAUGHT' if r['violation'] and not r['no_failing_input'] else ('TIE-ONLY' if r['violation'] else 'MISSED')) for r in res))
PY
