#!/usr/bin/env python3
"""tools/mk_seed_prompt.py <NAME e.g. C07-d> <focus text>  -> prints the filled prompt of tools/seed_prompt.md
and creates the scratch worktree /tmp/seedwt/<NAME> and the output directory /tmp/seed/<NAME>.out."""
import sys, json, glob, os, subprocess
name, focus = sys.argv[1], sys.argv[2]
pid = name.split("-")[0]
here = os.path.dirname(os.path.abspath(__file__))
root = os.path.dirname(here)
prop = None
for l in open(os.path.join(root, "properties.jsonl")):
    d = json.loads(l)
    if d["id"] == pid:
        prop = d["statement"]
avoid = []
for m in sorted(glob.glob(os.path.join(root, "seeded", pid + "-*", "meta.json"))):
    j = json.load(open(m))
    s = (j.get("summary") or "").replace("\n", " ")
    avoid.append("* " + s[:230] + ("…" if len(s) > 230 else ""))
tmpl = open(os.path.join(here, "seed_prompt.md")).read().split("---\n", 1)[1]
out = (tmpl.replace("{NAME}", name).replace("{PID}", pid).replace("{PROPERTY}", prop)
       .replace("{AVOID}", "\n".join(avoid) or "* (none)").replace("{FOCUS}", focus))
wt = "/tmp/seedwt/" + name
os.makedirs("/tmp/seedwt", exist_ok=True)
os.makedirs("/tmp/seed/%s.out" % name, exist_ok=True)
subprocess.run(["git", "-C", "/repo", "worktree", "remove", "--force", wt], capture_output=True)
subprocess.run(["git", "-C", "/repo", "worktree", "add", "-q", "--detach", wt, "HEAD"], check=True)
print(out)
