#!/bin/bash
# Usage: tools/eval_seed.sh <dir with patch.diff> <label> <check ids...>
# Applies the change to /repo, runs the quick checks, undoes the change, restores evidence/ and Gen/.
set -u
SRC=$1; LABEL=$2; shift 2
cd /verif
if [ -n "$(git -C /repo status --porcelain)" ]; then echo "/repo not clean"; exit 2; fi
rm -rf /tmp/evsave && mkdir -p /tmp/evsave && cp -r evidence /tmp/evsave/evidence && cp -r lean/Hb/Gen /tmp/evsave/Gen
git -C /repo apply $SRC/patch.diff || { echo "apply failed"; exit 2; }
OUT=/verif/.cache/seedruns/$LABEL; mkdir -p $OUT
for id in "$@"; do
  /usr/bin/time -f "%es" ./check $id quick > $OUT/$id.out 2>&1
  rc=$?
  v=$(grep -m1 "^VIOLATION" $OUT/$id.out || true)
  echo "$LABEL $id rc=$rc ${v:-no-violation} $(tail -1 $OUT/$id.out)"
  rp=$(echo "$v" | sed -n 's/.*replay=\([^ ]*\).*/\1/p'); [ -n "$rp" ] && cp "$rp" $OUT/$id.replay.txt 2>/dev/null
done
git -C /repo checkout -- . 
rm -rf evidence lean/Hb/Gen && cp -r /tmp/evsave/evidence evidence && cp -r /tmp/evsave/Gen lean/Hb/Gen
