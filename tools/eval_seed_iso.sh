#!/bin/bash
# Usage: tools/eval_seed_iso.sh <dir with patch.diff> <label> <check ids...>
# Evaluates a seeded change WITHOUT touching /repo: scratch worktree of /repo + private copy of /verif whose
# "/repo" references point at the worktree. Equivalent to `git -C /repo apply` + ./check + checkout, but can
# run in parallel and while other jobs build against /repo. Results: /verif/.cache/seedruns/<label>/.
set -u
SRC=$1; LABEL=$2; shift 2
ROOT=/tmp/mut/$LABEL
rm -rf $ROOT; mkdir -p $ROOT
git -C /repo worktree remove --force $ROOT/repo >/dev/null 2>&1
git -C /repo worktree add -q --detach $ROOT/repo HEAD || exit 2
cp /repo/Cargo.lock $ROOT/repo/ 2>/dev/null
( cd $ROOT/repo && git apply $SRC/patch.diff ) || { echo "$LABEL apply failed"; git -C /repo worktree remove --force $ROOT/repo; exit 2; }
mkdir -p $ROOT/verif
( cd /verif && tar cf - --exclude=.git --exclude=.cache/run --exclude=.cache/seedruns --exclude=.cache/c16-target --exclude=.cache/rustdoc --exclude='.cache/target*' . ) | ( cd $ROOT/verif && tar xf - )
mkdir -p $ROOT/verif/.cache
cp -r /verif/.cache/target $ROOT/verif/.cache/target 2>/dev/null
cp -r /verif/.cache/target-portable $ROOT/verif/.cache/target-portable 2>/dev/null
sed -i "s#path = \"/repo\"#path = \"$ROOT/repo\"#" $ROOT/verif/harness/Cargo.toml
sed -i "s#^REPO = \"/repo\"#REPO = \"$ROOT/repo\"#" $ROOT/verif/checklib/core.py
sed -i "s#target-dir = \"/verif/.cache/target\"#target-dir = \"$ROOT/verif/.cache/target\"#" $ROOT/verif/harness/.cargo/config.toml
OUT=/verif/.cache/seedruns/$LABEL; mkdir -p $OUT
cd $ROOT/verif
for id in "$@"; do
  timeout 1500 ./check $id quick > $OUT/$id.out 2>&1
  rc=$?
  v=$(grep -m1 "^VIOLATION" $OUT/$id.out || true)
  echo "$LABEL $id rc=$rc ${v:-no-violation} :: $(grep -A1 -m1 '^VIOLATION' $OUT/$id.out | tail -1 | cut -c1-160)"
  rp=$(echo "$v" | sed -n 's/.*replay=\([^ ]*\).*/\1/p'); [ -n "$rp" ] && cp "$rp" $OUT/$id.replay.txt 2>/dev/null
done
cd /; git -C /repo worktree remove --force $ROOT/repo; rm -rf $ROOT
