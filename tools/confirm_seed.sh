#!/bin/bash
# Usage: tools/confirm_seed.sh <dir containing patch.diff, seed_demo.rs, meta.json> <name>
# Confirms in a scratch worktree of /repo (removed afterwards): the change applies and builds, the
# existing suite stays green with it, the demonstration fails with the change and passes without.
# Prints one JSON line.  Extra environment for the demo: meta.json "features" (cargo features) and
# "rustflags" (e.g. "--cfg miri" to select the portable scanner).
set -u
SRC=$(readlink -f $1); NAME=$2
WT=/tmp/confirm-$NAME
git -C /repo worktree remove --force $WT >/dev/null 2>&1
git -C /repo worktree add -q --detach $WT HEAD || exit 2
cd $WT
export CARGO_TARGET_DIR=$WT/target CARGO_NET_OFFLINE=true
FEAT=$(python3 -c "import json,sys;print((json.load(open('$SRC/meta.json')).get('features') or '').replace(' ',','))" 2>/dev/null)
RFL=$(python3 -c "import json,sys;print(json.load(open('$SRC/meta.json')).get('rustflags') or '')" 2>/dev/null)
XENV=$(python3 -c "import json,sys;e=json.load(open('$SRC/meta.json')).get('env') or '';print(' '.join('%s=%s'%kv for kv in e.items()) if isinstance(e,dict) else e)" 2>/dev/null)
COMPILE=$(python3 -c "import json,sys;print(int(bool(json.load(open('$SRC/meta.json')).get('compile_demo'))))" 2>/dev/null)
[ -n "$XENV" ] && export $XENV
FARG=""; [ -n "$FEAT" ] && FARG="--features $FEAT"
R="{\"name\":\"$NAME\""
if ! git apply $SRC/patch.diff 2>/tmp/confirm-$NAME.err; then echo "$R,\"apply\":false}"; cd /; git -C /repo worktree remove --force $WT; exit 1; fi
cargo build --offline --features rayon,serde,raw-entry,rustc-internal-api >/dev/null 2>&1; B=$?
cargo test --workspace --offline --no-fail-fast >$WT/suite.log 2>&1; S=$?
FAILED=$(grep -c "^test .* FAILED" $WT/suite.log)
PASSED=$(grep "^test result" $WT/suite.log | sed -n 's/.* \([0-9]*\) passed.*/\1/p' | paste -sd+ | bc)
cp $SRC/seed_demo.rs tests/seed_demo.rs
RUSTFLAGS="$RFL" timeout 600 cargo test --offline $FARG --test seed_demo >$WT/demo_with.log 2>&1; DW=$?
git checkout -q -- src
RUSTFLAGS="$RFL" timeout 600 cargo test --offline $FARG --test seed_demo >$WT/demo_without.log 2>&1; DWO=$?
WC=$(grep -c "could not compile\|^error\[E" $WT/demo_with.log); WOC=$(grep -c "could not compile\|^error\[E" $WT/demo_without.log)
echo "$R,\"with_compile_errors\":$WC,\"without_compile_errors\":$WOC,\"apply\":true,\"build_rc\":$B,\"suite_rc\":$S,\"suite_failed\":$FAILED,\"suite_passed\":${PASSED:-0},\"demo_with_rc\":$DW,\"demo_without_rc\":$DWO,\"features\":\"$FEAT\",\"rustflags\":\"$RFL\",\"compile_demo\":${COMPILE:-0}}"
grep -E "panicked|assert|FAILED|error(\[|:)" $WT/demo_with.log | head -4 | sed 's/^/    with: /' | cut -c1-220
cd /; git -C /repo worktree remove --force $WT
