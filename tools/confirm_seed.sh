#!/bin/bash
# Usage: tools/confirm_seed.sh <dir containing patch.diff and seed_demo.rs> <name>
# Confirms in a scratch worktree: builds, existing suite green with the change, demo fails with / passes without.
set -u
SRC=$1; NAME=$2
WT=/tmp/confirm-$NAME
git -C /repo worktree remove --force $WT >/dev/null 2>&1
git -C /repo worktree add -q --detach $WT HEAD || exit 2
cd $WT
export CARGO_TARGET_DIR=$WT/target CARGO_NET_OFFLINE=true
R="{\"name\":\"$NAME\""
if ! git apply $SRC/patch.diff 2>/tmp/confirm-$NAME.err; then echo "$R,\"apply\":false}"; git -C /repo worktree remove --force $WT; exit 1; fi
cargo build --offline --features rayon,serde,raw-entry,rustc-internal-api >/dev/null 2>&1; B=$?
cargo test --offline --no-fail-fast >$WT/suite.log 2>&1; S=$?
FAILED=$(grep -c "^test .* FAILED" $WT/suite.log)
cp $SRC/seed_demo.rs tests/seed_demo.rs
timeout 300 cargo test --offline --test seed_demo >$WT/demo_with.log 2>&1; DW=$?
git checkout -q -- src
timeout 300 cargo test --offline --test seed_demo >$WT/demo_without.log 2>&1; DWO=$?
echo "$R,\"apply\":true,\"build_rc\":$B,\"suite_rc\":$S,\"suite_failed\":$FAILED,\"demo_with_rc\":$DW,\"demo_without_rc\":$DWO}"
tail -5 $WT/demo_with.log | sed 's/^/    with: /' | cut -c1-200
cd /; git -C /repo worktree remove --force $WT
