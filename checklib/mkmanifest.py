#!/usr/bin/env python3
"""Regenerate /verif/MANIFEST.json from checklib/props.py (run after editing props.py)."""
import json, os, sys
sys.path.insert(0, os.path.dirname(os.path.abspath(__file__)))
import props
VERIF = os.path.dirname(os.path.dirname(os.path.abspath(__file__)))
ALL = [json.loads(l)["id"] for l in open(os.path.join(VERIF, "properties.jsonl"))]
REPO_HOOK_COMMITS = [l.strip() for l in open(os.path.join(VERIF, "checklib", "hook_commits.txt")) if l.strip()]
checks = []
for pid in ALL:
    if pid not in props.PROPS:
        continue
    c = props.PROPS[pid]
    checks.append(dict(
        property_id=pid,
        quick_cmd="./check %s quick" % pid,
        thorough_cmd="./check %s thorough" % pid,
        evidence_file="/verif/evidence/%s.json" % pid,
        replay_cmd_template="./check %s --replay {path}" % pid,
        engine="lean4-model+correspondence",
        level_claimed=dict(category=c.get("category", "proof"), text=c["text"], design_ref=c["design"]),
        level_note=c["note"],
        technique=c.get("technique", "Lean 4 theorems over an executable model; model tied to /repo by state-dump correspondence"),
    ))
na = []
for pid in ALL:
    if pid not in props.PROPS:
        na.append(dict(property_id=pid, reason=props.NOT_CLAIMED.get(pid, "check under construction: theorem file and tie not yet both green on the unchanged tree")))
m = dict(
    version=1,
    setup_cmd="./check --setup",
    hooks=dict(
        guard="hashbrown_verif",
        enable='RUSTFLAGS="--cfg hashbrown_verif" (set in harness/.cargo/config.toml; portable scanner build adds --cfg miri, which needs no source change)',
        baseline_off_cmd="cd /repo && cargo test --workspace --no-fail-fast --offline",
        source_commits=REPO_HOOK_COMMITS,
        add_only=True,
    ),
    engines=[dict(name="lean4-model+correspondence", path="/verif/lean, /verif/harness, /verif/checklib",
                  serves_properties=[c["property_id"] for c in checks],
                  kind_free_text="Lean 4 executable model + theorems (lake), Rust harness executing /repo in-process with cfg-guarded dump hooks, line-protocol diff")],
    checks=checks,
    notes="See DESIGN.md. Every check rebuilds the harness against /repo's working tree, re-checks its Lean theorem module and re-runs the correspondence.",
    not_applicable=na,
)
json.dump(m, open(os.path.join(VERIF, "MANIFEST.json"), "w"), indent=1)
print("MANIFEST.json: %d checks, %d not claimed" % (len(checks), len(na)))
