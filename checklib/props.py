"""Per-property configuration and the generic check runner."""
import os, sys, time, json, re, zlib
import core
from core import Violation

def canon_cross(line):
    """What C18 compares across back-ends: return value, len, contents as a set (no layout)."""
    if " ; " not in line:
        return line
    parts = line.split(" ; ")
    ret, st = parts[0], parts[1]
    m = re.search(r" s=(\S*)", st)
    elems = sorted(x.split(":", 1)[1] for x in m.group(1).split(",") if x) if m else ["<hashed>"]
    ln = re.search(r"len=(\d+)", st)
    items = re.search(r" i=(\d+)", st)
    return "%s | len=%s items=%s | %s" % (ret, ln.group(1) if ln else "?", items.group(1) if items else "?", ",".join(elems))


def cross_backend(pid, tier, seed, workdir, stats):
    """Same operation sequences (layout-independent ops) on the SSE2 and the portable build must give the same
    return values, lengths and contents."""
    n = 2500 if tier == "thorough" else 150
    for profile in ("churn", "grow", "xback", "xback-table"):
        prefix = os.path.join(workdir, "x-" + profile)
        full = dict(core.ENV, HBV_FULL_DUMP="1")
        rc, out = core.sh([core.hbv("sse2"), "gen", profile, str(gen_seed(seed, 5)), str(n), prefix], env=full, timeout=core.batch_timeout(tier))
        if rc != 0:
            raise Violation("harness crashed generating %s" % profile, out[-1500:], False)
        rc, out = core.sh([core.hbv("portable"), "replay", prefix + ".ops"], env=full, timeout=core.batch_timeout(tier))
        a = [canon_cross(l) for l in open(prefix + ".real").read().split("\n")]
        b = [canon_cross(l) for l in out.split("\n")]
        stats["evaluations"] += len(a)
        stats["batches"].append(dict(backend="sse2-vs-portable", gen="gen %s" % profile, lines=len(a)))
        if a != b:
            i = next((k for k in range(min(len(a), len(b))) if a[k] != b[k]), min(len(a), len(b)))
            # locate scenario
            ops = open(prefix + ".ops").read().split("\n")
            raise Violation("SSE2 and portable builds differ in return value / len / contents on the same history",
                            "# observation %d differs\n# sse2    : %s\n# portable: %s\n# ops file: %s (profile %s)\n" % (i, a[i][:800] if i < len(a) else "<none>", b[i][:800] if i < len(b) else "<none>", prefix + ".ops", profile)
                            + "\n".join(ops[:400]) + "\n", True)


def serde_zst(pid, tier, seed, workdir, stats):
    """C20 on zero-sized element types: the real Deserialize impls fed empty streams with lying size hints,
    compared with the model's reservation (cautious -> capacity_to_buckets -> layout), both builds."""
    for b in ("sse2", "portable"):
        core.correspond(pid, tier, b, ["genpure", gen_seed(seed, 2), "serde"], workdir, stats)


def miri_support(pid, tier, seed, workdir, stats):
    """Supporting validation for the machine-level part of C02 (NOT proof, thorough tier only): a reduced set of
    generated histories is executed on the real collections under Miri (Stacked Borrows, uninitialised reads,
    out-of-bounds and misaligned accesses, use after free). Undefined behaviour reported by Miri is a
    violation with the history as replay; Miri's observations must also equal the native portable build's."""
    if tier != "thorough":
        return
    import subprocess
    rc, out = core.sh(["cargo", "+nightly", "miri", "--version"], cwd=core.HARNESS, timeout=120)
    if rc != 0:
        stats["notes"].append("Miri not available in this sandbox: machine-level supporting validation skipped")
        return
    tdir = os.path.join(core.CACHE, "target-miri")
    env = dict(core.ENV, CARGO_TARGET_DIR=tdir, MIRIFLAGS="-Zmiri-disable-isolation -Zmiri-ignore-leaks", RUSTFLAGS="--cfg hashbrown_verif")
    jobs = []
    for i, profile in enumerate(("mixed", "table", "set", "iter", "entry-full", "reserve", "saturate", "clone")):
        prefix = os.path.join(workdir, "miri-" + profile)
        rc, out = core.sh([core.hbv("portable"), "gen", profile, str(gen_seed(seed, 40 + i)), "2", prefix], timeout=600)
        if rc != 0 or not os.path.exists(prefix + ".ops"):
            continue
        fo, fe = open(prefix + ".miri", "w"), open(prefix + ".miri.err", "w")
        jobs.append((profile, prefix, subprocess.Popen(["cargo", "+nightly", "miri", "run", "--offline", "--", "replay", prefix + ".ops"],
                                                       cwd=core.HARNESS, env=env, stdout=fo, stderr=fe), fo, fe))
    t_end = time.time() + 3000
    for profile, prefix, p, fo, fe in jobs:
        try:
            rc = p.wait(timeout=max(10, t_end - time.time()))
        except subprocess.TimeoutExpired:
            p.kill()
            stats["notes"].append("Miri run of profile %s stopped after the time budget (no verdict)" % profile)
            continue
        finally:
            fo.close(); fe.close()
        err = open(prefix + ".miri.err", errors="replace").read()
        got = [l.rstrip() for l in open(prefix + ".miri", errors="replace").read().split("\n")]
        want = [l.rstrip() for l in open(prefix + ".real").read().split("\n")]
        stats["evaluations"] += len(got)
        stats["batches"].append(dict(backend="miri", gen="gen %s (2 scenarios, supporting validation)" % profile, lines=len(got)))
        # (leaks are not judged here: generated histories forget drains on purpose, which leaks by design; the
        # ownership and allocator ledgers judge leaks with that knowledge)
        if "Undefined Behavior" in err:
            k = err.find("Undefined Behavior")
            raise Violation("Miri reports undefined behaviour while the real collections execute a generated history (profile %s)" % profile,
                            "# " + err[max(0, k - 300):k + 2500].replace("\n", "\n# ") + "\n" + open(prefix + ".ops").read(), True)
        if rc != 0:
            stats["notes"].append("Miri run of profile %s ended with exit %d without a UB report: %s" % (profile, rc, err[-300:].replace("\n", " ")))
        elif got != want:
            i = next((k for k in range(min(len(got), len(want))) if got[k] != want[k]), -1)
            raise Violation("the same history gives different observations under Miri and natively (portable build), profile %s" % profile,
                            "# observation %d\n# miri  : %s\n# native: %s\n" % (i, got[i][:600] if 0 <= i < len(got) else "", want[i][:600] if 0 <= i < len(want) else "") + open(prefix + ".ops").read(), True)


def extras_oracle(pid, tier, seed, workdir, stats):
    """Oracle-only scenarios on the real collections for instantiations outside the line protocol: two sets / maps
    with DIFFERENTLY seeded hashers (all binary set operations, operator and assigning forms, predicates, ==, extend,
    clone_from against BTreeSet / BTreeMap mathematics), and zero-sized maps / sets (HashMap<(),()>, HashSet<()>,
    HashMap<(),u64>) over many capacities; and the trait impls the protocol never calls: Default of every iterator type and of
    the collections, From<[_; N]>, FromIterator, Extend by reference, IntoIterator for references. No model comparison: a failing
    scenario is reported as it is."""
    n = 20000 if tier == "thorough" else 600
    if tier != "thorough" and stats.get("changed"):
        n *= 3
    for b in ("sse2", "portable"):
        prefix = os.path.join(workdir, "extras-" + b)
        sd = gen_seed(seed, 61)
        rc, out = core.sh([core.hbv(b), "extras", str(sd), str(n), prefix], timeout=core.batch_timeout(tier))
        if rc != 0 or not os.path.exists(prefix + ".real"):
            # the scenario being executed is the last one announced in the .ops file (flushed before it starts)
            last = ""
            if os.path.exists(prefix + ".ops"):
                ls = [l for l in open(prefix + ".ops", errors="replace").read().split("\n") if l.startswith("scn ")]
                last = ls[-1] if ls else ""
            how = "did not terminate (killed after the time limit)" if rc == core.TIMED_OUT else "crashed or aborted"
            raise Violation("the implementation %s in an oracle-only scenario (%s build): %s" % (how, b, last or "hbv extras %d %d" % (sd, n)),
                            "# " + out[-1500:].replace("\n", "\n# ") + "\n# failing scenario: %s\n# replay: %s extras %d %d <prefix>   (every scenario derives from the seed; see harness/src/extras.rs)\n"
                            % (last, core.hbv(b), sd, n), True)
        lines = open(prefix + ".real").read().split("\n")
        stats["evaluations"] += len(lines)
        stats["batches"].append(dict(backend=b, gen="extras (differently seeded hashers, zero-sized maps/sets; oracle only)", lines=len(lines)))
        bad = [l for l in lines if "ORACLE-" in l]
        if bad:
            raise Violation("direct oracle on the implementation: %s" % (core.ORACLE_RE.search(bad[0]).group(0) if core.ORACLE_RE.search(bad[0]) else bad[0][:200]),
                            "# %d oracle-only scenario(s) fail on the %s build\n# replay: %s extras %d %d <prefix>   (every scenario derives from the seed; see harness/src/extras.rs)\n%s\n"
                            % (len(bad), b, core.hbv(b), sd, n, "\n".join(bad[:10])), True)


def c16_regen(pid, tier, seed, workdir, stats):
    """T1 for C16: regenerate the compiler-derived marker/method tables from /repo (rustdoc JSON)."""
    tr = os.path.join(core.VERIF, "translate", "rustdoc2lean.py")
    out = os.path.join(core.LEAN, "Hb", "Gen", "Markers.lean")
    rc, log = core.sh(["python3", tr, "--repo", core.REPO, "--out", out], timeout=1200)
    if rc != 0:
        raise Violation("C16: rustdoc JSON → Markers.lean failed (the crate no longer documents/compiles, or an impl has a shape the translator does not understand)",
                        "# translator output\n" + log[-3000:] + "\n# tie that no longer checks: Hb.Gen.Markers (regenerated tables)\n", False)
    n = len(re.findall(r"^\s*\(", open(out).read(), flags=re.M))
    stats["notes"].append("C16: Hb/Gen/Markers.lean regenerated from rustdoc JSON of /repo (%d table rows)" % n)
    stats["evaluations"] += n


def c16_corpus(pid, tier, seed, workdir, stats):
    """Second tie / oracle: generic obligation programs compiled by rustc against the rlib built from /repo."""
    summ = os.path.join(workdir, "c16-summary.json")
    rc, log = core.sh(["python3", os.path.join(core.VERIF, "translate", "c16_corpus.py"), "--repo", core.REPO, "--out", summ,
                       "--target-dir", os.path.join(core.CACHE, "c16-target")], timeout=3600)
    if not os.path.exists(summ):
        raise Violation("C16: obligation corpus could not be compiled (build of /repo failed?)", "# " + log[-2500:].replace("\n", "\n# ") + "\n", False)
    j = json.load(open(summ))
    stats["evaluations"] += j.get("programs", 0)
    stats["batches"].append(dict(backend="rustc", gen="c16 obligation corpus", lines=j.get("programs", 0)))
    stats["samples"] = stats["samples"] or [u.get("file") for u in j.get("unexpected", [])][:3] or ["harness/c16/*.rs (%d programs, all as expected)" % j.get("programs", 0)]
    if j.get("unexpected"):
        u = j["unexpected"][0]
        text = "# %d of %d obligation programs did not get the expected verdict from rustc\n" % (len(j["unexpected"]), j["programs"])
        for x in j["unexpected"][:10]:
            text += "# %s: expected %s, got %s\n" % (x.get("file"), x.get("expected"), x.get("got"))
        try:
            text += "# ---- first program (compile it against the rlib of /repo to replay) ----\n" + open(os.path.join(core.VERIF, "harness", "c16", os.path.basename(u["file"]))).read()
        except Exception:
            pass
        raise Violation("C16: rustc accepts a program that must be rejected (or vice versa): %s expected %s got %s" % (u.get("file"), u.get("expected"), u.get("got")), text, True)


def c16_borrow_search(pid, tier, seed, workdir, stats):
    """Third tie and failing-input search for the lifetime theorems: for EVERY public method that returns a
    borrow (all 67 types) generic obligation programs are synthesised from the rustdoc JSON of /repo (receiver
    passed in as a parameter: reborrow-while-alive, two live results, escape to 'static) and compiled by rustc.
    A program that must be rejected by the rule (result tied to the receiver borrow) and is accepted is a
    concrete failing input."""
    summ = os.path.join(workdir, "c16-search.json")
    rc, log = core.sh(["python3", os.path.join(core.VERIF, "translate", "c16_search.py"), "--repo", core.REPO, "--out", summ,
                       "--target-dir", os.path.join(core.CACHE, "c16-target"), "--all"], timeout=3600)
    if not os.path.exists(summ):
        raise Violation("C16: borrow-obligation synthesis could not run (build of /repo failed?)", "# " + log[-2500:].replace("\n", "\n# ") + "\n", False)
    j = json.load(open(summ))
    stats["evaluations"] += j.get("programs", 0)
    stats["batches"].append(dict(backend="rustc", gen="c16 synthesised borrow obligations (%d methods)" % j.get("methods_with_programs", 0), lines=j.get("programs", 0)))
    bad = list(j.get("accepted_but_must_reject", [])) + [m for m in j.get("mismatches", []) if m not in j.get("accepted_but_must_reject", [])] + list(j.get("suspicious", []))
    if bad:
        b = bad[0]
        text = "# %d synthesised borrow obligation(s) got the wrong verdict from rustc\n" % len(bad)
        for x in bad[:10]:
            text += "# %s::%s [%s] rule=%s expected=%s got=%s\n" % (x.get("type"), x.get("method"), x.get("kind"), x.get("rule"), x.get("expected"), x.get("got"))
        text += "# ---- first program: rustc accepts it although the rule says the borrow must conflict (compile against the rlib of /repo) ----\n"
        text += b.get("program", "") + "\n"
        accepted = any((x.get("got") in ("ok", "accepted", None)) or x in j.get("accepted_but_must_reject", []) or x in j.get("suspicious", []) for x in bad)
        raise Violation("C16: rustc accepts a borrow that must conflict: %s::%s (%s)" % (b.get("type"), b.get("method"), b.get("rule") or b.get("kind")), text, accepted)
    if j.get("not_synthesised"):
        stats["notes"].append("C16: %d method(s) could not be rendered as obligation programs: %s" % (len(j["not_synthesised"]), [(x.get("type"), x.get("method")) for x in j["not_synthesised"]][:5]))


# Scenario batches: (profile, count_quick, count_thorough). Profiles are defined in harness/src/main.rs.
MAP_CORE = [("grow", 150, 4000), ("churn", 250, 8000), ("saturate", 120, 4000), ("mixed", 400, 12000)]

PROPS = {
    "C17": dict(
        module="Hb.Props.C17",
        ties=[("pure", {}), ("t1", {}), ("scen", "reserve", 120, 4000), ("custom", extras_oracle)],
        backends=["sse2", "portable"],
        design="§7 C17",
        text="Lean theorems for all capacities/sizes/alignments/table sizes (no bound); model tied to the source by "
             "exhaustive comparison of capacity_to_buckets on 1..2^22 (2^26 thorough) by breakpoints, boundary sets "
             "to usize::MAX, layout grid, probe positions, through cfg-guarded wrappers, in both back-end builds; ProbeSeq regenerated "
             "from source (T1); oracle-only long probe chains (tables of up to 16384 buckets filled with one hash); a run of the "
             "implementation that does not terminate within the time limit is reported as a violation with the scenario.",
        note="Trusted: Lean kernel; axioms propext, Classical.choice, Quot.sound; the harness, the hook wrappers and "
             "the line protocol; u64 arithmetic of rustc for the values compared. 32-bit usize is covered by the "
             "theorems (bits ≥ 16) but has no tie (cannot be built here).",
    ),
    "C16": dict(
        module="Hb.Props.C16",
        ties=[("custom", c16_regen), ("custom", c16_corpus), ("custom", c16_borrow_search)],
        backends=[],
        pre_ties=True,
        design="§7 C16",
        technique="Lean 4 `decide +kernel` theorems over compiler-derived tables regenerated from /repo (rustdoc JSON) + rustc obligation corpus",
        text="The model is the compiler's own answer: Send/Sync impls (synthesised and manual, with per-parameter bounds) and "
             "method signatures of all 67 public types are regenerated from /repo's rustdoc JSON on every run; theorems (decide "
             "+kernel over the finite tables) state that every impl carries the bound the hand-written requirement table "
             "demands, that tables cover each other, and that no returned borrow is untied. The quantifier over instantiations "
             "is discharged by rustc on generic obligations: 983 generated programs (missing-bound, variance-coercion, "
             "borrow-across-mutation; each reject paired with an accepting twin) must get the expected verdict; in addition, for every "
             "one of the 138 borrow-returning methods of all public types, generic borrow obligations (reborrow while the result is "
             "alive, two live results, escape to 'static) are synthesised from the current rustdoc JSON and must be rejected/accepted "
             "as the rule says (317 programs).",
        note="Trusted: rustc's trait solver/borrow checker and rustdoc's rendering of synthesised impls; the requirement table "
             "C16Req.lean (specification, written from the struct definitions); Lean kernel (axioms: none or propext). Variance "
             "is decided only by the rustc corpus (rustdoc JSON has no variance). One recorded waiver (ParDrain: Send without a "
             "bound on A — it never touches the allocator), proved to be a real deviation by `waivers_are_exact`.",
    ),
    "C18": dict(
        module="Hb.Props.C18",
        ties=[("pure", {}), ("t1", {}), ("custom", cross_backend), ("scen", "churn", 150, 3000), ("scen", "saturate", 60, 1500)],
        backends=["sse2", "portable"],
        design="§7 C18",
        text="Lean theorems: both scanner back-ends (SSE2 lanes per Intel pseudo-code, portable u64 word tricks exactly as "
             "written) satisfy the byte-wise GroupSpec on every group of valid control bytes, with the stated false-positive "
             "caveat for the portable tag match (and a witness that it occurs). Ties: generic.rs/bitmask.rs/tag.rs regenerated "
             "from source (T1, Gen = Model proofs), every primitive compared through hooks in two real builds on all 2-byte "
             "windows x lanes x backgrounds and random groups, table histories in both builds against the model, and the same "
             "histories (HashMap and HashTable, incl. the elements of one hash via iter_hash) cross-compared between the builds "
             "on return values/len/contents.",
        note="Trusted: Lean kernel; axioms propext/Classical.choice/Quot.sound ONLY — the portable word tricks are proved with "
             "kernel reasoning (Hb/Proofs/GroupKernel.lean, GroupKernelSpec.lean: bit extensionality of the packed word, decide "
             "+kernel over lane bits, the borrow chain of the tag-match subtraction by omega); the earlier bv_decide proofs remain "
             "in Hb/Proofs/Group.lean but no property theorem depends on them any more. Intel's documented lane "
             "semantics of cmpeq/movemask/cmpgt/or; harness/hooks. NEON/LSX back-ends cannot be built here and are not covered; "
             "big-endian to_le path not tied.",
    ),
    "C01": dict(
        module="Hb.Props.C01",
        ties=[("scen", "grow", 150, 4000), ("scen", "churn", 250, 8000), ("scen", "saturate", 120, 4000),
              ("scen", "mixed", 300, 10000), ("scen", "entry", 200, 6000), ("scen", "entry-full", 100, 4000), ("t1", {}), ("custom", extras_oracle)],
        backends=["sse2", "portable"],
        design="§7 C01",
        text="Lean refinement theorems (history_refines_all_calls / history_refines): for every deterministic hash function "
             "(Lawful env H: any H, incl. all-colliding), every history — in any interleaving — of insert/get/get_mut/contains/"
             "remove/remove_entry/clear/reserve/try_reserve/shrink/retain, entry / entry_ref / rustc_entry / raw_entry_mut "
             "followed by any method chain, raw_entry look-ups, try_insert, extend, get_many_mut and Index from new(), both "
             "scanners, all table sizes: returns (and the documented panics) are related call by call to an association-"
             "list trace (AL.StepX, proved functional) and the final contents are a permutation of the abstract map with distinct keys; insert keeps the "
             "originally stored key object; look-ups depend on the probe only through hash and Eq. Proved by induction over "
             "the history with the invariant InvL (tag, reachability along the probe sequence, key distinctness), incl. "
             "resize, in-place rehash and the tombstone rule. Tie: full state dump after every operation on generated "
             "histories under 10 hash-plan families (mixed, const0, constMax, sequential, cluster, position x tag, lsb twins, "
             "same position, same tag, group stride) x element layouts, forced in-place rehash (saturate), both builds; "
             "direct oracle: reference association list + structural invariant on the real collection after every call.",
        note="Trusted: Lean kernel, axioms propext/Classical.choice/Quot.sound; harness, hooks, protocol. Raw-entry builders "
             "with a caller-supplied hash are in the history theorem under their documented contract (hash = the key's hash). "
             "from_iter / clone / clone_from / == / into_iter as history calls: pair_history_refines in Hb.Props.C11History (C11's check "
             "re-checks it); per call C14 fromIter_spec.",
    ),
    "C02": dict(
        module="Hb.Props.C02",
        more_modules=["Hb.Props.C02SetTable", "Hb.Props.C02Forget", "Hb.Props.C02Bucket"],
        ties=[("scen", "mixed", 300, 10000), ("scen", "saturate", 80, 3000), ("scen", "entry-full", 120, 4000),
              ("scen", "table", 150, 5000), ("scen", "set", 100, 3000), ("scen", "iter", 100, 3000),
              ("scen", "panic-mixed", 4, 120), ("scen", "reserve", 100, 3000), ("scen", "clone", 80, 3000), ("custom", miri_support), ("custom", extras_oracle), ("t1", {}), ("scen", "par", 60, 2000, ["sse2"])],
        backends=["sse2", "portable"],
        design="§7 C02",
        text="Proof of the index/ownership logic: in the Lean model every raw access is checked (control byte outside "
             "[0, n+W), write to the static singleton, slot outside the table, read/drop of a dead slot, write over a live slot, "
             "unwrap_unchecked(None), usize underflow, non-terminating loop => `fault`). Theorems run_safe / runX_safe: for EVERY environment "
             "(any hasher incl. all-colliding/inconsistent, panicking callbacks, refusing allocator), every history of the "
             "modelled calls (basic calls, every entry-API family with any chain and any caller-supplied hash, try_insert, "
             "extend, get_many_mut, Index) incl. forgetting a part-consumed drain, `fault` is unreachable and the API invariant holds after "
             "every call (returned or unwound); the same for HashSet (set_run2_safe: every history of the 27 set calls on a pair of sets) and "
             "HashTable (table_runH_safe: every history of the 17 table calls with ARBITRARY caller-supplied hashes and an arbitrary, "
             "possibly panicking re-hash closure), with len = number of elements iteration yields in every reachable state "
             "(Hb.Props.C02SetTable); a forgotten drain leaves the valid empty singleton; element regions of the "
             "layout are pairwise disjoint, inside the block and aligned (from C17). Tie: full dumps after every call on "
             "histories over element layouts (32..200 bytes, align 8..64, odd 5-byte/align-1, zero-sized in tables), tables "
             "smaller/equal/larger than a group, both back-ends, debug assertions and overflow checks on; direct oracles on the "
             "real collections: structural invariant, slot addresses (alignment, position below the control bytes, group-aligned "
             "control bytes), checking allocator (exact layout on dealloc, poisoned fresh/freed memory), ownership ledger.",
        note="PARTIAL for the machine level: the model cannot exhibit pointer provenance/aliasing (Stacked/Tree Borrows), reads of "
             "uninitialised bytes as such, the SIMD loads or code generation; those are only exercised by the supporting "
             "validation above (not proof). Trusted: Lean kernel, axioms propext/Classical.choice/Quot.sound; harness/hooks. "
             "Pointer level: Hb/Model/BucketPtr.lean models the Bucket<T> pointer encoding (sized: one-past pointers growing down from the "
             "control bytes; zero-sized: index+1 pseudo-pointers) and the data pointer of RawIterRange over abstract addresses; "
             "Hb.Props.C02Bucket proves round trip, injectivity, element regions inside the data part and pairwise disjoint, "
             "next_n = index addition for both encodings, and that the iterator's pointer state refines the index-level iterator "
             "model through new / advance / split / clone; the bodies of from_base_index, to_base_index, as_ptr, next_n, bucket_ptr, "
             "bucket_index, into_allocation's block start and the data / next_ctrl expressions of RawIterRange::{new,next_impl,"
             "fold_impl,split,clone} are REGENERATED from the source (T1) and proved equal to that model. "
             "Leaked objects: Hb.Props.C02Forget proves for every environment that leaking an ExtractIf after k steps, any borrowing "
             "iterator (incl. writes through IterMut / ValuesMut), an entry of any family right after creation (rustc_entry / "
             "HashTable::entry: the state after their reserve(1)), an OccupiedEntry after in-place updates or a VacantEntry's "
             "insertion result, an owning iterator after k steps, or a Drain leaves a table with the API invariant from which ANY "
             "further history is safe (leak_then_any_history_safe); scope guards are never handed to the user. "
             "Thorough tier adds a reduced set of generated histories executed under Miri (supporting validation of the "
             "machine level, not proof): a Miri UB report or a Miri-vs-native difference is reported with the history.",
    ),
    "C03": dict(
        module="Hb.Props.C03",
        more_modules=["Hb.Props.C03SetTable"],
        ties=[("scen", "mixed", 300, 10000), ("scen", "iter", 150, 4000), ("scen", "entry", 150, 4000),
              ("scen", "table", 120, 4000), ("scen", "set", 100, 3000), ("scen", "reserve", 100, 3000), ("scen", "clone", 80, 3000),
              ("scen", "panic-mixed", 4, 120), ("scen", "par", 80, 2000, ["sse2"]), ("t1", {}), ("custom", extras_oracle)],
        backends=["sse2", "portable"],
        design="§7 C03",
        text="Lean ledger theorems for every environment in which the calls return (released_exactly_once_all_calls covers the whole "
             "modelled API: every entry-API family with any chain, try_insert, extend, get_many_mut, Index interleaved with the basic "
             "calls; at_most_once_with_panics covers histories in which calls unwind): for every history from new() (insert, remove, "
             "remove_entry, overwrite, clear, retain, extract_if and drain at every cut point, reserve/shrink) the key-object and "
             "value-object identities satisfy stored ++ dropped-by-the-collection ++ returned-to-the-caller = inserted as "
             "multisets (so with distinct ids: each exactly once, a returned value is never also dropped); after dropping the "
             "collection nothing is stored; the allocator log is balanced (every alloc has exactly one later free with the same "
             "layout, nothing live at the end); a never-allocated collection owns no block. into_iter, clone, clone_from, from_iter "
             "and mem::take as history calls over a pair of maps: run2_ledger (Hb.Props.C11History; object ledger, clones counted "
             "when created); per call intoIter_spec / cloneFrom_spec. Tie: drop events (per object id) and allocator events (size/align) of every call "
             "compared with the model, element types with and without drop glue, tape allocator; direct oracles: ownership "
             "ledger on the real run (double drop, leak), allocator ledger (layout mismatch, leaked block at scenario end).",
        note="Trusted: Lean kernel, axioms propext/Classical.choice/Quot.sound; harness (drop/alloc instrumentation), hooks. The "
             "ledger theorems speak about calls that return; unwound calls are covered by C04 (at most once, leaks only after a "
             "destructor panic). HashTable and HashSet-pair histories: Hb.Props.C03SetTable (table_released_exactly_once, "
             "set_pair_released_exactly_once: stored ++ dropped ++ handed back = moved in ++ clones created; allocator balanced after "
             "every prefix with a FRAMED invariant that tolerates the other collection's live block; drop releases everything; "
             "table histories with unwinding calls: lost only after a destructor panic or an unwound extract_if; the unwinding "
             "ledger for set pairs is not proved). A forgotten drain is excluded (it leaks by design).",
    ),
    "C05": dict(
        module="Hb.Props.C05",
        ties=[("scen", "broken-hash", 200, 6000), ("scen", "broken-eq", 200, 6000), ("scen", "broken-both", 150, 5000),
              ("scen", "broken-sat", 60, 2000), ("scen", "broken-entry", 100, 3000), ("scen", "broken-table", 100, 3000), ("scen", "broken-set", 120, 3000), ("t1", {})],
        backends=["sse2", "portable"],
        design="§7 C05",
        text="Lean theorems quantified over ARBITRARY environments (hash and eq answers are functions of the call number: "
             "different hashes for one key, equal keys with different hashes, non-equivalence Eq, fresh pseudo-random answers): "
             "`fault` is unreachable, every call terminates (all loops within their fuel), the structural invariant holds after "
             "every call, len = number of elements yielded by iteration/drain, every stored element is dropped exactly once "
             "(ledger). None of these proofs mentions the hash-dependent invariant. Tie: histories executed with call-dependent "
             "pseudo-random Hash and/or Eq tapes (identical splitmix in Rust and Lean) with full dumps compared, including histories "
             "that switch to an unlawful hasher once the table is saturated with tombstones (in-place rehash under a broken hasher), "
             "the entry / raw-entry API and HashTable (get_many_mut) under unlawful tapes; direct oracles: "
             "structural invariant, ownership ledger, iteration count = len on the real collection.",
        note="Trusted: Lean kernel, axioms propext/Classical.choice/Quot.sound; harness, hooks. Termination on the real code is "
             "observed as completion of the runs. HashSet / HashTable histories under unlawful environments: "
             "broken_hash_eq_safe_set_table in Hb.Props.C02SetTable (re-checked by C02's check).",
    ),
    "C04": dict(
        module="Hb.Props.C04",
        more_modules=["Hb.Props.C04SetLedger", "Hb.Props.C04EntryPanic"],
        ties=[("scen", "panic-sat-nodrop", 6, 150), ("scen", "panic-sat-drop", 6, 150), ("scen", "panic-mixed", 8, 200),
              ("scen", "panic-entry", 5, 120), ("scen", "entry", 150, 4000), ("scen", "panic-table", 4, 100), ("scen", "panic-set", 3, 80), ("t1", {}), ("custom", extras_oracle)],
        backends=["sse2", "portable"],
        design="§7 C04, §10 F1",
        text="Lean theorems for every environment and every history with panics at ANY callback invocation: after every call, "
             "returned or unwound, of the whole modelled API the collection is valid with len = #stored (valid_after_any_panic); "
             "no key/value object is dropped twice, returned twice, or dropped/returned while still stored (no_double_drop, from "
             "the ledger of histories with panics: stored + dropped + returned + lost = inserted, lost only after a destructor "
             "panic or handed out by an unwound extract_if/drain; frees matched, a block leaks only when a Drain's Drop unwinds "
             "— machine-checked witness); and for the two guarded growth paths: a hasher panic inside resize leaves the "
             "table unchanged and frees the new block; a hasher panic inside in-place rehash leaves a table satisfying the "
             "structural invariant with len = #elements and every element kept or dropped exactly once; neither path can "
             "fault. Machine-checked witness of defect F1 (guard as shipped in 0.15.2) and of the repaired guard. Tie: "
             "enumerated fault sweeps — for base histories (incl. in-place rehash, with and without drop glue) and each "
             "selected operation, every k-th invocation of every callback class (Hash, Eq, Clone, predicate, Drop) panics; "
             "after catch_unwind the full state is compared with the model and judged by direct oracles (structural "
             "invariant, ownership ledger: no double drop / no leak unless a destructor panicked, len = #yielded = #found).",
        note="Trusted: Lean kernel, axioms propext/Classical.choice/Quot.sound; harness, hooks, protocol. Callback classes "
             "Into (entry_ref) and extend-iterator panics are covered by the entry profile once C14's tie is present. HashSet / "
             "user closures that panic inside entry methods (replace_entry_with / and_replace_entry_with of Entry and of the raw "
             "builders, or_insert_with, and_modify): Hb.Props.C04EntryPanic — exact table, log, ledger and no-double-drop for every "
             "environment, and any later history stays safe; HashSet::get_or_insert_with's closure: model Hb/Model/SetPanic.lean, tie only. "
             "HashTable histories: valid_after_any_panic_set_table (Hb.Props.C02SetTable, re-checked by C02's check); unwinding ledger of "
             "HashSet-pair histories: Hb.Props.C04SetLedger (lost only by an unwound clear after a destructor panic; no set call "
             "leaks a block); table histories: Hb.Props.C03SetTable; serde visitors "
             "under panics: Hb.Props.C20Safe (re-checked by C20's check). Panics "
             "inside Drop while already unwinding abort the process by Rust's rules and are excluded.",
    ),
    "C06": dict(
        module="Hb.Props.C06",
        more_modules=["Hb.Props.C06History"],
        ties=[("scen", "table", 300, 10000), ("scen", "table-churn", 120, 4000), ("scen", "panic-table", 4, 100), ("t1", {})],
        backends=["sse2", "portable"],
        design="§7 C06",
        text="Lean HISTORY theorem table_history_refines (Hb.Props.C06History): every history of the 17 HashTable calls (find, find_mut, "
             "insert_unique, find_entry + OccupiedEntry::remove (+ VacantEntry::insert), entry().insert/or_insert/and_modify, retain, "
             "extract_if, drain, clear, reserve, shrink_to, get_many_mut, iter_hash, iter, len) from new(), for ARBITRARY (stateful, "
             "panicking) equality closures, predicates and destructors and any hash assignment, never faults and after every prefix "
             "is a trace of a reference MULTISET (returns and caught panics related call by call; stored elements = reference up to "
             "permutation; len = its size); corollaries in the words of the property: inserted-and-not-removed is found, removed is "
             "never returned, len counts duplicates, iter_hash(h) yields each stored element with hash h and no bucket twice. "
             "Per call: Lean theorems over the table invariant TblInv (structural invariant + every element tagged with and reachable "
             "along the probe sequence of its caller-supplied hash; NO key-distinctness: a HashTable is a multiset) for every "
             "assignment of 64-bit hashes (function H, arbitrary collisions in position and tag bits) and arbitrary equality "
             "closures: find returns a stored element accepted by the closure whenever one exists with that hash, never "
             "anything not stored; len counts duplicates; insert_unique / OccupiedEntry::remove + VacantEntry::insert into the "
             "same bucket / entry / retain / extract_if / drain / clear / reserve / shrink / get_many_mut all preserve TblInv "
             "(incl. resize and in-place rehash without nodup); iter_hash(h) yields every stored element with hash h and no "
             "bucket twice, for every table size (also smaller than a group). Tie: table and table-churn profiles (duplicates, "
             "colliding hashes, tombstone build-up, zero-sized and over-aligned elements) with full dumps compared; direct "
             "oracle: reference multiset + iter_hash output on the real table.",
        note="Trusted: Lean kernel, axioms propext/Classical.choice/Quot.sound; harness, hooks, protocol. Panic outcomes of the "
             "operations that run the rehash closure are left unconstrained in C06's theorems (covered by C04).",
    ),
    "C14": dict(
        module="Hb.Props.C14",
        more_modules=["Hb.Props.C14RawOther"],
        ties=[("scen", "entry-full", 250, 8000), ("scen", "entry", 250, 8000), ("scen", "entry-sat", 150, 5000), ("scen", "set", 150, 5000), ("scen", "panic-entry", 4, 100), ("t1", {}), ("custom", extras_oracle)],
        backends=["sse2", "portable"],
        design="§7 C14",
        text="Lean theorems for every state satisfying the representation invariant (in particular growth_left = 0, tombstone-"
             "saturated, unallocated) and every key: entry / entry_ref / raw_entry_mut (from_key, from_key_hashed_nocheck, "
             "from_hash) / rustc_entry / HashSet::entry report Occupied exactly when the key is present; every chain of every "
             "family (insert, or_insert*, and_modify, insert_key, remove, remove_entry, replace_entry_with, "
             "and_replace_entry_with, vac_insert*, key, drop) has the return value, contents (up to permutation) and drop log of "
             "the equivalent get/insert/remove sequence (total per-chain tables); an unused Vacant entry leaves contents and len "
             "unchanged (rustc_entry may have grown capacity); rustc_entry's reserve-then-insert_no_grow never faults for ANY "
             "environment; extend/from_iter = fold of insert; try_insert. Tie: entry and entry-full profiles (states steered to "
             "capacity()==len(), tombstone saturation, unallocated) incl. panicking closures, full dumps compared; direct "
             "oracle: reference association list for every chain.",
        note="Trusted: Lean kernel, axioms propext/Classical.choice/Quot.sound; harness, hooks, protocol. Raw builders with a "
             "caller-supplied hash are specified under their documented contract (the hash is the key's hash); a machine-"
             "checked counterexample shows the contract is necessary.",
    ),
    "C15": dict(
        module="Hb.Props.C15",
        ties=[("scen", "table", 300, 10000), ("scen", "entry", 200, 6000), ("custom", extras_oracle), ("t1", {})],
        backends=["sse2", "portable"],
        design="§7 C15, §10 F2",
        text="Lean theorems for every environment (unlawful closures included): get_many_mut returns N results in request "
             "order, each found request its own live bucket, the found buckets pairwise distinct, writes land exactly in those "
             "buckets and nowhere else, or the call panics iff two requests resolve to the same bucket; with a lawful closure "
             "present keys yield their own entry and absent keys None (HashMap::get_many_mut / get_many_key_value_mut and "
             "HashTable::get_many_mut). F2 (zero-sized elements) is witnessed by evaluation next to the general theorem. Tie: "
             "all request tuples N = 0..4 incl. duplicates, absent and colliding keys and closures matching several entries, on "
             "sized, over-aligned and zero-sized element types, with the written values visible in the dump; direct oracle: "
             "a panic for requests that resolve to distinct entries is reported.",
        note="Trusted: Lean kernel, axioms propext/Classical.choice/Quot.sound; harness, hooks, protocol. Address distinctness of "
             "distinct buckets for sized elements is C02/C17's layout theorem plus the layout oracle.",
    ),
    "C07": dict(
        module="Hb.Props.C07",
        more_modules=["Hb.Props.C07History"],
        ties=[("scen", "set-pairs", 250, 8000), ("scen", "set", 200, 6000), ("scen", "panic-set-pairs", 3, 60), ("custom", extras_oracle), ("t1", {})],
        backends=["sse2", "portable"],
        design="§7 C07",
        text="Lean theorems: (i) set_history_refines — every history of 27 HashSet calls on a pair of sets from (new(), new()) "
             "(insert/remove/take/replace/get_or_insert(_with)/entry/retain/clear/reserve/shrink, the four lazy binary "
             "iterators, the four predicates incl. ==, and |= &= ^= -=) agrees call by call with a reference on key-distinct "
             "lists that is proved to be the mathematical one, and every reachable pair satisfies the invariant the per-call "
             "theorems assume (any_two_histories); (ii) per call, over ANY two set tables satisfying the hash-dependent invariant (any histories, layouts, "
             "capacities, tombstones), every deterministic hasher, both scanners: union/intersection/difference/"
             "symmetric_difference yield explicit duplicate-free lists equal to the mathematical result (both |A|<=|B| and "
             "|A|>|B| strategies), all four size hints are sound, is_subset/is_superset/is_disjoint/== give the mathematical "
             "answer (== symmetric), &= and -= (both strategies) unconditional, |=, ^= and the non-assigning operators exact "
             "whenever they return; insert keeps / replace swaps / get_or_insert keeps the stored object, get_or_insert_with "
             "refuses a non-equivalent value with the set unchanged. Tie: all binary ops, predicates, operator and assigning "
             "forms in both directions on pairs of sets built by different histories (set-pairs), full dumps compared with "
             "the model, incl. panic sweeps inside the binary ops; direct oracle: BTreeSet mathematics on the real sets.",
        note="Trusted: Lean kernel, axioms propext/Classical.choice/Quot.sound; harness, hooks, protocol. Inserting operations are "
             "stated for the case where the call returns (reserve may abort on allocator refusal); destructor panics are "
             "explicit alternative outcomes.",
    ),
    "C08": dict(
        module="Hb.Props.C08",
        ties=[("scen", "reserve", 300, 10000), ("scen", "mixed", 200, 6000), ("scen", "saturate", 60, 2000),
              ("scen", "table", 150, 5000), ("scen", "set", 120, 4000), ("t1", {}), ("custom", extras_oracle)],
        backends=["sse2", "portable"],
        design="§7 C08",
        text="Lean theorems over every table state satisfying the API invariant (any tombstone pattern), every hasher and "
             "allocator oracle: capacity>=len; reserve/with_capacity give capacity>=len+n; reserving or inserting within "
             "capacity()-len() performs no allocator request; shrink_to keeps all elements, never enlarges, leaves "
             "capacity>=max(len,min(m,old capacity)), frees when empty and m=0, and ends no larger than with_capacity(max(len,m)); "
             "allocation_size equals the layout size of the table's own bucket count. Tie: boundary-dense reserve/"
             "try_reserve/shrink histories with full dump + allocator events compared with the model, direct capacity "
             "oracle on the real collection around every call, both back-ends; capacity arithmetic regenerated (T1).",
        note="Trusted: Lean kernel, axioms propext/Classical.choice/Quot.sound; harness, hooks, protocol. clear/drain keeping "
             "the allocation, with_capacity(0), shrink in bytes, and all clauses in every reachable state of HashSet-pair / HashTable "
             "histories: Hb.Props.C13SetTable (c08_*; re-checked by C13's check). HashSet/"
             "HashTable share RawTable::reserve/shrink_to; their wrappers (set.rs, table.rs) are tied by the set/table profiles "
             "and judged by the same direct capacity oracle.",
    ),
    "C10": dict(
        module="Hb.Props.C10",
        ties=[("scen", "mixed", 300, 10000), ("scen", "retain-chain", 120, 4000), ("scen", "iter", 150, 4000), ("scen", "table", 150, 5000),
              ("scen", "set", 120, 4000), ("scen", "panic-mixed", 4, 120), ("custom", extras_oracle), ("t1", {})],
        backends=["sse2", "portable"],
        design="§7 C10",
        text="Lean theorems for every environment (arbitrary per-call predicate answers incl. panics) and every table state "
             "satisfying the API invariant: retain calls the predicate exactly once per element in bucket order, keeps exactly "
             "the true-answered ones with the payloads written through &mut, drops the others exactly once (every subset of "
             "the stored elements is realised by some pure predicate); extract_if yields exactly the visited-and-true elements, "
             "unvisited ones stay (early drop), nothing is dropped by the collection; drain at every cut point k: yields the "
             "first min(k,len) elements, drops the rest once, leaves the same allocation emptied and valid; a forgotten drain "
             "leaves a valid empty collection; erase-behind-the-iterator lemma. HashSet/HashTable variants are the same code "
             "(rfl). Tie: retain/extract_if(k)/drain(k, forget)/into_iter(k) under pseudo-random predicate tapes with mutation, "
             "for maps, sets and tables, full dumps + drop events compared; direct oracle: reference filter on the real run.",
        note="Trusted: Lean kernel, axioms propext/Classical.choice/Quot.sound (EqSpec imports Batteries.Data.List.Perm); "
             "harness, hooks, protocol.",
    ),
    "C11": dict(
        module="Hb.Props.C11",
        more_modules=["Hb.Props.C11History"],
        ties=[("scen", "clone", 250, 8000), ("scen", "mixed", 200, 6000), ("scen", "table", 100, 3000), ("scen", "set", 100, 3000),
              ("scen", "panic-mixed", 4, 120), ("custom", extras_oracle), ("t1", {})],
        backends=["sse2", "portable"],
        design="§7 C11",
        text="Lean HISTORY theorems over a PAIR of maps (Hb.Props.C11History; calls: every single-map call of C01's history on either "
             "side, other = target.clone(), target.clone_from(&other), ==, into_iter (k steps, then dropped), from_iter, mem::take): "
             "run2_safe — for EVERY environment no history faults and both tables satisfy the API invariant with len = #stored "
             "after every call, returned or unwound; pair_history_refines — for lawful Hash/Eq the observations follow a reference "
             "pair of association lists (clone: same key->value association modulo object identities; == true iff the same finite "
             "map; panicking Clone is part of the reference); clone_then_diverge / run2_other_unchanged — any later history on one "
             "side leaves the other side literally unchanged; eq_ignores_history — == is symmetric and depends only on the two "
             "finite maps, whatever capacities/tombstones the histories left; run2_ledger — object ledger over the pair (clones "
             "counted when created). Per call: clone() yields a table with the same control bytes and position-wise clones (same key/value, "
             "identities = the Clone oracle's answers, disjoint from the source's when the oracle is fresh); clone_from into a "
             "target in ANY state drops the target's old elements once and gives clones of the source (four paths: "
             "unallocated source, same bucket count, different bucket count, panic); both preserve the hash-dependent invariant; "
             "== is true exactly when both maps are the same finite map k -> v, for independently (differently) hashed sides, "
             "any layouts/capacities/tombstones, and is symmetric; a clone compares equal to its source. Independence is by "
             "construction in the value-semantic model; for the real code it is what the tie checks. Tie: clone-pairs profile "
             "(clone / clone_from between two collections in all size relations, then mutate either side and compare == both "
             "ways), full dumps + clone/drop/alloc events compared; direct oracle: reference equality, fresh identities.",
        note="Trusted: Lean kernel, axioms propext/Classical.choice/Quot.sound; harness, hooks, protocol. The tape allocator is "
             "one zero-sized type, so cross-allocator ownership of the clone's block is not observable here (see DESIGN catches).",
    ),
    "C12": dict(
        module="Hb.Props.C12",
        ties=[("scen", "alloc-reserve", 12, 300), ("scen", "reserve", 200, 6000), ("t1", {}), ("custom", extras_oracle)],
        backends=["sse2", "portable"],
        design="§7 C12",
        text="Lean theorem try_reserve_contract for every table state (API invariant), amount, allocator oracle and hasher: "
             "Ok with capacity>=len+additional, or CapacityOverflow / AllocError{refused layout} with table and event log "
             "exactly as before; never abort, never the capacity panic, never a fault (only a user hasher panic can unwind); "
             "every layout handed to the allocator is a calculate_layout_for result (valid by C17). Tie: allocator-refusal "
             "sweeps (the j-th request of every try_reserve of a base history is refused, for every j) and boundary amounts "
             "(around 7/8*2^k, isize::MAX/size, usize::MAX) with full state + allocator events compared with the model; direct "
             "oracle on the real collection: Err => dump identical and no event, AllocError carries the refused layout.",
        note="Trusted: Lean kernel, axioms propext/Classical.choice/Quot.sound; harness (tape allocator), hooks, protocol. "
             "Zero-sized element layouts are exercised by the table profile (C06) rather than here.",
    ),
    "C13": dict(
        module="Hb.Props.C13",
        more_modules=["Hb.Props.C13SetTable"],
        ties=[("scen", "churn-long", 12, 600), ("scen", "churn-window", 16, 600), ("scen", "entry", 120, 4000), ("scen", "churn", 250, 8000), ("scen", "saturate", 100, 3000), ("t1", {})],
        backends=["sse2", "portable"],
        design="§7 C13",
        text="Lean theorems for every environment and every history of unbounded length of insert/get/get_mut/remove/remove_entry "
             "AND of the entry-style insert/remove paths (entry / entry_ref / rustc_entry / raw_entry_mut with any chain, try_insert; "
             "extend is excluded — it reserves from the size hint, machine-checked witness) "
             "from new(): capacity <= max(14, 4*peak len), bucket count <= 4x with_capacity(n), bytes <= 4x that layout; "
             "tombstones are reclaimed in place (same bucket count, no allocator event) when at most half the capacity is live; "
             "every look-up terminates without fault in any state satisfying the invariant. Tie: long churn histories (4000 "
             "ops) and saturate histories under all hash plans with the bucket count in every dump compared with the model "
             "(a flipped in-place/grow decision shows at its first occurrence) + direct oracle of the bound on the real map "
             "after every call; reserve_rehash decision regenerated from source (T1).",
        note="Trusted: Lean kernel, axioms propext/Classical.choice/Quot.sound; harness, hooks, protocol. Termination on the real "
             "code is observed only as completion of the runs (no timing-based verdicts). HashTable and HashSet-pair histories: "
             "Hb.Props.C13SetTable (table_churn_bound / set_churn_bound: capacity <= max(14, 4*peak), buckets and bytes forms, every "
             "environment, arbitrary caller-supplied hashes; for `|=` / `^=` the peak counts len(self)+len(rhs) at the call — a "
             "boundary-only peak is false for `^=` by hand analysis, no machine-checked witness). The same file holds the C08 / C12 "
             "statements in every reachable state of set-pair and table histories and the C08 clauses clear_keeps_allocation, "
             "drain_keeps_allocation (normal return; a destructor panic inside Drain's drop or a forgotten drain leaves the unallocated "
             "singleton and leaks the block), with_capacity_zero_allocates_nothing, shrink_never_enlarges (bytes).",
    ),
    "C19": dict(
        module="Hb.Props.C19",
        ties=[("scen", "par", 200, 3000), ("t1", {})],
        backends=["sse2", "portable"],
        design="§7 C19",
        text="Lean theorems about the rayon producers AND consumers: helpers::collect preserves order for every split tree; "
             "par_extend / from_par_iter = sequential extend / from_iter (same map, same drops, last value wins across leaves; "
             "witness that a reversed reduce breaks it); par_is_subset / par_is_disjoint / par_eq / par_difference / "
             "par_intersection / par_union / par_symmetric_difference = their sequential counterparts for every producer tree and "
             "every legal early-exit pattern. About the split logic, for EVERY binary decision tree over the bucket "
             "range (every choice of split-or-consume at every node), every table satisfying the structural invariant (any "
             "size, any occupancy, tombstones, both scanners) and, for par_drain, every per-leaf early-stop count: the leaves "
             "of RawIterRange::split partition the full buckets (each stored element in exactly one leaf, once, leaves in "
             "bucket order); consumed ++ dropped-by-ParDrainProducer::drop over all leaves is exactly the stored elements, the "
             "slot moves never touch a dead slot in any order, and the table left by the clear_no_drop guard is empty, keeps "
             "its allocation and satisfies the invariant. Ties: RawIterRange::split driven along generated trees (depth <= 6, "
             "spines, full trees) through a hook and compared leaf-by-leaf with the model; all rayon entry points of maps, sets "
             "and tables run in real thread pools of 1..64 threads with early-stopping consumers (try_for_each / find_any / "
             "undriven drop) and judged by direct oracles: delivered multiset = stored, id ledger consumed+dropped = stored "
             "exactly once (process-global drop log), collection empty/usable/allocation kept, par_extend / from_par_iter / "
             "par_eq / set algebra and predicates = sequential counterparts = reference sets.",
        note="Partial by design: rayon's scheduler, work stealing and inter-thread memory ordering are outside the model "
             "(trusted: the bridge drives the producer along some tree, runs every leaf once, and its reducers combine results in "
             "leaf order). Trusted further: Lean kernel, axioms propext/Classical.choice/Quot.sound; harness, split hook, protocol.",
    ),
    "C09": dict(
        module="Hb.Props.C09",
        more_modules=["Hb.Props.C09Wrappers"],
        ties=[("scen", "iter", 300, 10000), ("scen", "mixed", 200, 6000), ("scen", "saturate", 40, 2000),
              ("scen", "table", 150, 5000), ("scen", "set", 100, 3000), ("scen", "panic-mixed", 6, 150), ("custom", extras_oracle), ("t1", {})],
        backends=["sse2", "portable"],
        design="§7 C09",
        text="Lean theorems: in every table state satisfying the structural invariant (proved preserved elsewhere; "
             "validated on every state of every run) RawIter::next yields exactly the full buckets once, fold = "
             "repeated next from any prefix, size_hint exact at every step, fused, default empty — unbounded in table "
             "size and occupancy. The 16 PUBLIC iterator types (map Iter/IterMut/Keys/Values/ValuesMut/IntoIter/IntoKeys/"
             "IntoValues/Drain, set Iter/IntoIter/Drain, table Iter/IterMut/IntoIter/Drain) are modelled impl by impl "
             "(Hb/Model/IterWrap.lean: every next/size_hint/len/fold/Clone/Default forwards as in the source) and "
             "Hb.Props.C09Wrappers proves for each of them: every stored element's projection exactly once then None "
             "forever, size_hint/len exact after any number of steps, fold = the remaining nexts from any prefix, clones "
             "continue independently, defaults are empty; owning ones: yielded ++ dropped-on-drop = stored at every cut "
             "point, into_keys/into_values drop the other component exactly once. Tie: at the states of generated "
             "histories every public iterator kind is walked on the real code with next/clone/fold switched at every prefix "
             "length and compared to the model; owning iterators at every cut point, through next and through fold with a "
             "consumer that stops by panicking.",
        note="Trusted: Lean kernel, axioms propext/Classical.choice/Quot.sound; harness + dump hook + protocol. The driver "
             "executes the WRAPPER model of the named public type for every `iter` observation (iterObserveW: next x p, fold, "
             "next on a clone, size hints); the harness maps every yielded reference back to its "
             "bucket, so a wrapper that skipped, repeated or mis-projected an element shows as a difference. IntoValues runs "
             "with a panicking KEY destructor are proved per step only. IterHash/IterHashMut (no size_hint) belong to C06.",
    ),
    "C20": dict(
        module="Hb.Props.C20",
        more_modules=["Hb.Props.C20Safe"],
        ties=[("scen", "serde", 250, 8000), ("custom", serde_zst), ("t1", {})],
        backends=["sse2", "portable"],
        design="§7 C20",
        text="Lean theorems: reservation_bounded (for every claimed length: cautious <= 4096, hence <= 8192 buckets / capacity "
             "7168 / bytes <= layout(8192), nothing allocated for hint 0/None) over all element sizes and both widths; last_wins "
             "and roundtrip on the abstract map, instantiated for the table model through the C01 refinement (last_wins_table, "
             "roundtrip_table); error_midway_ledger / error_at_value_ledger / deserialize_in_place: every object built before "
             "the failing position is dropped exactly once and the block freed. Tie: the real Serialize/Deserialize impls driven "
             "by a hand-rolled Serializer and a scripted Deserializer (claimed lengths 0..usize::MAX incl. capacity_to_buckets "
             "boundaries, duplicates, failure at every key/value position) into HashMap/HashSet with the tape allocator; full "
             "state + allocator events compared with the model; direct oracles: last-wins reference, ownership ledger, capacity "
             "bound before the first element; zero-sized element types (HashSet<()>, HashMap<(),()>) through the real impls with "
             "claimed lengths up to 2^24 against the model's reservation; `cautious` regenerated from source (T1).",
        note="Trusted: Lean kernel, axioms propext/Classical.choice/Quot.sound; harness (scripted serde front-end), hooks, protocol. "
             "last_wins / roundtrip at table level assume a lawful hasher; everything else is proved for EVERY environment in "
             "Hb.Props.C20Safe (inconsistent or panicking Hash/Eq, panicking destructors, refusing allocator): the visitors, "
             "deserialize_in_place and `*target = deserialize()?` never fault, the drop of the local collection while unwinding cannot "
             "panic, the partially built collection is gone after an input error or panic (in place: a valid partially filled set), "
             "every object built before the failure point is stored or dropped exactly once (lost only after a destructor panic), "
             "blocks balanced, the old target untouched on error. deserialize_in_place into an EMPTIED place that still holds "
             "tombstones may reserve 16384 buckets instead of 8192 (clear() returns early on an empty table; machine-checked "
             "counterexample, still a constant bound — `in_place_reservation_bounded_partial`). serde's own data formats are out of scope.",
    ),
}


def gen_seed(seed, i):
    return (seed * 1000003 + i * 7919) % (1 << 31)


def run_ties(pid, cfg, tier, seed, workdir, stats):
    """Run every tie. A tie that breaks WITHOUT a concrete failing input does not end the run: the remaining
    ties (other generators, tapes, back-ends) are still executed as part of the search for a failing input,
    and a violation with a replayable input found there is the one reported."""
    pending = None
    for tie in cfg["ties"]:
        try:
            run_tie(pid, cfg, tie, tier, seed, workdir, stats)
        except Violation as v:
            if v.found_input:
                if pending is not None:
                    v.what = v.what + " [first broken tie: %s]" % pending.what
                raise v
            if pending is None:
                pending = v
    if pending is not None:
        raise pending


def run_tie(pid, cfg, tie, tier, seed, workdir, stats):
    thorough = tier == "thorough"
    if True:
        kind = tie[0]
        if kind == "pure":
            for b in cfg.get("backends", ["sse2"]):
                core.correspond(pid, tier, b, ["genpure", gen_seed(seed, 1), "thorough" if thorough else "quick"], workdir, stats)
        elif kind == "scen":
            _, profile, nq, nt = tie[:4]
            backends = tie[4] if len(tie) > 4 else cfg.get("backends", ["sse2"])
            n = nt if thorough else nq
            if not thorough and stats.get("changed"):
                # the source differs from the tree the model was last validated against: search harder
                n = n * (2 if profile.startswith("panic") or profile.startswith("alloc") else 3)
            for b in backends:
                nb = n if b == "sse2" else max(20, n // 3)
                core.correspond(pid, tier, b, ["gen", profile, gen_seed(seed, zlib.crc32(profile.encode()) % 97), nb], workdir, stats)
        elif kind == "t1":
            t1_tie(pid, stats, (tier, seed, workdir))
        elif kind == "custom":
            tie[1](pid, tier, seed, workdir, stats)


# Which properties a broken T1 item (generated definition / GenEq theorem, matched by name) bears on. An item that
# matches no pattern bears on every property that has the T1 tie.
T1_GROUPS = [
    (r"capacity_to_buckets|bucket_mask_to_capacity|RawTable_capacity|reserve|shrink_to|fallible_with_capacity|resize_inner|new_uninitialized|RawTableInner_new|_len_|is_empty|buckets|num_ctrl_bytes",
     {"C08", "C12", "C13", "C17", "C01", "C02"}),
    (r"calculate_layout|TableLayout", {"C17", "C12", "C02", "C08"}),
    (r"insert|record_item|erase|find_|fix_insert|probe|h1|move_next|is_in_same_group|set_ctrl|index",
     {"C01", "C02", "C05", "C06", "C13", "C14"}),
    (r"probe|ProbeSeq|h1|move_next", {"C17"}),
    (r"rehash_in_place|clear|RawDrain", {"C13", "C10", "C04", "C03", "C02", "C01", "C06"}),
    (r"clone_from", {"C11", "C03", "C04", "C02"}),
    (r"replace_bucket_with", {"C14", "C04", "C02", "C13"}),
    (r"Tag|Group|BitMask|match_|repeat|generic|sse2|Generic|Sse2|convert_special", {"C18", "C01", "C06"}),
    (r"cautious|extend", {"C20", "C13", "C01"}),
    (r"Bucket|RawIterRange|RawIter_|into_allocation|data_end|bucket_ptr|bucket_index|offset_from|RawTableInner_iter|RawTable_bucket|RawTableInner_bucket",
     {"C02", "C09", "C15", "C03", "C10", "C01", "C06", "C19"}),
]


# The same for the call-shape tie of the API layer (Hb.Proofs.GenEqApi, theorems `api_<item>`): an item bears on the
# union of all matching rows; an item matching no row bears on every property that has the T1 tie.
T1_API_GROUPS = [
    (r"^(api_)?Serde|visit_|deserialize|serialize|cautious", {"C20", "C13"}),
    (r"^(api_)?Rayon|Par[A-Z]|par_|collect", {"C19", "C16", "C03"}),
    (r"^(api_)?Set[._]|HashSet", {"C07", "C04", "C05"}),
    (r"^(api_)?Table[._]|HashTable", {"C06", "C08", "C15"}),
    (r"Entry|entry|RawEntry|RustcEntry|replace_entry_with|or_insert|and_modify", {"C14", "C02", "C04"}),
    (r"get_many|build_hashes", {"C15", "C06"}),
    (r"Iter|Keys|Values|Drain|IntoIter|ExtractIf|_impls$|[._]items$|Intersection|Difference|Union", {"C09", "C10", "C03"}),
    (r"retain|extract_if|drain|ExtractIf|Drain", {"C10", "C03"}),
    (r"[Cc]lone|PartialEq|_eq_|par_eq", {"C11", "C04"}),
    (r"reserve|shrink|capacity|with_capacity", {"C08", "C12"}),
    (r"^(api_)?Map[._]HashMap[._](insert|try_insert|remove|get|contains|find_or|Extend|FromIterator|From_|Index)", {"C01", "C05", "C13"}),
    (r"make_hash|make_hasher|equivalent", {"C01", "C05"}),
    (r"^(api_)?Raw[._]", {"C02", "C10", "C15", "C03", "C09"}),
]


def t1_api_bears_on(pid, names):
    if not names:
        return True
    for n in names:
        groups = [props for pat, props in T1_API_GROUPS if re.search(pat, n)]
        if not groups or any(pid in g for g in groups):
            return True
    return False


def t1_bears_on(pid, log):
    """Names of broken T1 items in a translator / lake log, and whether any of them bears on `pid`."""
    names = set(re.findall(r"gen_(\w+?)(?:_eq|_model)?\b", log)) | set(n.replace("::", "_") for n in re.findall(r"\bfn ([\w:]+)", log))
    names = {n for n in names if n and n not in ("", "fn")}
    if not names:
        return names, True
    hit = False
    for n in names:
        groups = [props for pat, props in T1_GROUPS if re.search(pat, n)]
        if not groups or any(pid in g for g in groups):
            hit = True
    return names, hit


def t1_tie(pid, stats, ctx=None):
    """Regenerate Hb/Gen/Pure.lean from /repo and re-check Gen = Model (if the translator exists)."""
    tr = os.path.join(core.VERIF, "translate", "rust2lean.py")
    geneq = os.path.join(core.LEAN, "Hb", "Proofs", "GenEq.lean")
    if not (os.path.exists(tr) and os.path.exists(geneq)):
        stats["notes"].append("T1 translator not present in this tree: tie by correspondence only")
        return
    out = os.path.join(core.LEAN, "Hb", "Gen", "Pure.lean")
    rc, log = core.sh(["python3-vt", tr, "--repo", core.REPO, "--out", out], timeout=600)
    if rc != 0:
        names, bears = t1_bears_on(pid, log)
        if not bears:
            stats["notes"].append("T1: translation of %s failed (source changed shape); these items do not bear on %s — tie not counted against it" % (sorted(names), pid))
            return
        if ctx is not None:
            tier, seed, workdir = ctx
            try:
                core.correspond(pid, tier, "sse2", ["genpure", gen_seed(seed, 1), "quick"], workdir, stats)
            except Violation as v:
                if v.found_input:
                    raise Violation("T1: translation of the pure functions failed; " + v.what,
                                    "# translator output\n# " + log[-1500:].replace("\n", "\n# ") + "\n" + v.replay_text, True)
        raise Violation("T1: translation of the pure functions failed (source outside the accepted subset or changed shape)",
                        "# translator output\n" + log[-3000:] + "\n# theorem/tie that no longer checks: Hb.Proofs.GenEq (generated definitions)\n", False)
    rc, log = core.sh(["lake", "build", "Hb.Proofs.GenEq"], cwd=core.LEAN, timeout=1800)
    stats["notes"].append("T1: Hb/Gen/Pure.lean regenerated from /repo, Hb.Proofs.GenEq rebuilt")
    if rc != 0:
        errs = "\n".join(l for l in log.splitlines() if "error" in l)[:3000]
        # attribute: the GenEq theorems that no longer check are named by the line numbers of the errors
        failing = set()
        try:
            src_lines = open(geneq).read().split("\n")
            for m in re.finditer(r"GenEq\.lean:(\d+):", log):
                ln = int(m.group(1)) - 1
                while ln >= 0 and not re.match(r"\s*(theorem|lemma|example)\b", src_lines[ln]):
                    ln -= 1
                if ln >= 0:
                    mm = re.match(r"\s*(?:theorem|lemma)\s+(\S+)", src_lines[ln])
                    failing.add(mm.group(1) if mm else "example")
        except Exception:
            pass
        names, bears = t1_bears_on(pid, " ".join(failing)) if failing else (set(), True)
        if failing and not bears:
            stats["notes"].append("T1: %s no longer check; these items do not bear on %s — tie not counted against it" % (sorted(failing), pid))
            return
        if failing:
            errs = "theorems that no longer check: %s\n" % ", ".join(sorted(failing)) + errs
        # the tie is broken: search for a concrete failing input by evaluating the real functions on the
        # boundary-dense pure-function batch (direct arithmetic oracle, panics and aborts are journalled)
        if ctx is not None:
            tier, seed, workdir = ctx
            try:
                core.correspond(pid, tier, "sse2", ["genpure", gen_seed(seed, 1), "quick"], workdir, stats)
            except Violation as v:
                if v.found_input:
                    raise Violation("T1: generated definition no longer equals the model (Hb.Proofs.GenEq does not check); " + v.what,
                                    "# lemma(s) of Hb.Proofs.GenEq that no longer check:\n# " + errs.replace("\n", "\n# ") + "\n" + v.replay_text, True)
        raise Violation("T1: generated definition no longer equals the model (Hb.Proofs.GenEq does not check)",
                        "# lemma(s) of Hb.Proofs.GenEq that no longer check:\n" + errs + "\n", False)
    # call-shape tie of the API layer: Hb/Gen/Api.lean was regenerated together with Pure.lean; its literal snapshot
    # lives in Hb/Proofs/GenEqApi.lean (one `rfl` theorem per item)
    geneq_api = os.path.join(core.LEAN, "Hb", "Proofs", "GenEqApi.lean")
    if os.path.exists(geneq_api):
        rc, log = core.sh(["lake", "build", "Hb.Proofs.GenEqApi"], cwd=core.LEAN, timeout=1800)
        if rc != 0:
            failing = set()
            try:
                src_lines = open(geneq_api).read().split("\n")
                for m in re.finditer(r"GenEqApi\.lean:(\d+):", log):
                    ln = int(m.group(1)) - 1
                    while ln >= 0 and not re.match(r"\s*theorem\b", src_lines[ln]):
                        ln -= 1
                    if ln >= 0:
                        mm = re.match(r"\s*theorem\s+(\S+)", src_lines[ln])
                        if mm:
                            failing.add(mm.group(1))
            except Exception:
                pass
            if failing and not t1_api_bears_on(pid, failing):
                stats["notes"].append("T1 (API call shapes): %s no longer check; these items do not bear on %s — tie not counted against it" % (sorted(failing)[:8], pid))
                return
            raise Violation("T1: the call shape of an API-layer function differs from the recorded one (Hb.Proofs.GenEqApi does not check): %s" % ", ".join(sorted(failing)[:6]),
                            "# items of Hb.Proofs.GenEqApi that no longer check (which inner operations the function performs, in which order; impl lists):\n# "
                            + "\n# ".join(sorted(failing)[:40]) + "\n# see lean/Hb/Gen/api_items.json for the source function of each item\n", False)
        stats["notes"].append("T1: Hb/Gen/Api.lean regenerated from /repo, Hb.Proofs.GenEqApi (call shapes of %d API items) rebuilt" % len(re.findall(r"^theorem ", open(geneq_api).read(), flags=re.M)))


def run_check(pid, tier, seed):
    t0 = time.time()
    cfg = PROPS[pid]
    workdir = core.run_dir(pid, tier)
    stats = dict(evaluations=0, distinct=set(), samples=[], batches=[], notes=[])
    try:
        stats["changed"] = core.changed_sources()
    except Exception:
        stats["changed"] = []
    if stats["changed"]:
        stats["notes"].append("source files differing (token-wise) from the validated baseline: %s — quick tier runs 3x the generated "
                              "histories per tie (effort only; no verdict depends on it)" % ", ".join(stats["changed"]))
    rc_final = 0
    messages = []
    # 0. ties that regenerate Lean inputs from /repo come first
    early_violation = None
    if cfg.get("pre_ties"):
        try:
            cfg["ties"][0][1](pid, tier, seed, workdir, stats)
        except Violation as v:
            early_violation = v
    # 1. theorems
    thm = core.check_theorems(cfg["module"])
    for extra in cfg.get("more_modules", []):
        t2 = core.check_theorems(extra)
        thm = dict(obligations=thm["obligations"] + t2["obligations"], discharged=thm["discharged"] + t2["discharged"],
                   axioms=sorted(set(thm["axioms"]) | set(t2["axioms"])), theorems=thm["theorems"] + t2["theorems"],
                   problems=thm["problems"] + t2["problems"], build_failed=thm.get("build_failed") or t2.get("build_failed"))
    # 2. builds
    build_problem = None
    try:
        core.build_driver()
    except Exception as e:
        build_problem = str(e)
    backends = set(cfg.get("backends", ["sse2"]))
    for tie in cfg["ties"]:
        if tie[0] == "scen" and len(tie) > 4:
            backends |= set(tie[4])
    if not build_problem:
        for b in sorted(backends):
            ok, out = core.build_harness(b)
            if not ok:
                build_problem = "harness build (%s) against /repo failed:\n%s" % (b, out[-2500:])
                break
    violation = early_violation
    if violation is not None:
        pass
    elif build_problem:
        violation = Violation("the verification build of /repo no longer compiles", "# " + build_problem.replace("\n", "\n# ") + "\n", False)
    else:
        try:
            run_ties(pid, dict(cfg, ties=cfg["ties"][1:]) if cfg.get("pre_ties") else cfg, tier, seed, workdir, stats)
        except Violation as v:
            violation = v
    if violation is None and thm["problems"]:
        violation = Violation("theorem(s) of %s no longer check: %s" % (cfg["module"], "; ".join(thm["problems"][:6])),
                              "# property theorems that no longer check (module %s)\n# %s\n" % (cfg["module"], "\n# ".join(thm["problems"])), False)
    nviol = 0
    if violation is not None:
        rc_final = core.report_violation(pid, violation.what, violation.replay_text, violation.found_input)
        nviol = 1 if rc_final else 0
    coverage = dict(
        obligations=thm["obligations"], discharged=thm["discharged"],
        checker_cmd="cd /verif/lean && lake build %s && lake env lean %s.lean  (kernel re-check; thorough: leanchecker)" % (cfg["module"], cfg["module"].replace(".", "/")),
        trusted_base=["Lean 4.33 kernel"] + ["axiom " + a for a in thm["axioms"]] + ["harness + hooks + line protocol (correspondence)"],
        theorems=thm["theorems"],
        evaluations=max(1, stats["evaluations"]), distinct_nontrivial=len(stats["distinct"]),
        rule="correspondence: one evaluation = one operation/function line executed on the implementation and on the model "
             "with full state dump compared; distinct = distinct post-states (dump text) observed",
        samples=stats["samples"] or ["(no correspondence batch ran)"],
        batches=stats["batches"], notes=stats["notes"],
        traces_validated_against_impl=len(stats["batches"]),
    )
    if tier == "thorough" and not thm.get("build_failed"):
        rc, out = core.sh(["lake", "env", "leanchecker", cfg["module"]] + cfg.get("more_modules", []), cwd=core.LEAN, timeout=3600)
        coverage["leanchecker"] = "ok" if rc == 0 else "FAILED: " + out[-500:]
        if rc != 0 and rc_final == 0:
            rc_final = core.report_violation(pid, "leanchecker rejects " + cfg["module"], out[-2000:], False, tag="leanchecker")
            nviol += 1
    core.write_evidence(pid, tier, seed, "proof", coverage,
                        [cfg["note"]], time.time() - t0, nviol)
    print("%s %s: theorems %d/%d, %d correspondence lines, %.1fs%s" % (
        pid, tier, thm["discharged"], thm["obligations"], stats["evaluations"], time.time() - t0,
        "" if rc_final == 0 else "  -> VIOLATION"))
    return rc_final


def replay(pid, path):
    """Re-execute a replay file on the implementation and the model, show the first difference."""
    text = "".join(l for l in open(path) if not l.startswith("#"))
    workdir = core.run_dir(pid, "replay")
    core.build_driver()
    rc_all = 0
    for b in PROPS[pid].get("backends", ["sse2"]):
        ok, out = core.build_harness(b)
        if not ok:
            print("build failed for", b)
            return 1
        real, model, rc = core.replay_on(b, text, workdir)
        hits = core.oracle_hits(real)
        print("[%s] implementation exit=%d, %d lines; oracle hits: %s" % (b, rc, len(real), hits[:3]))
        for i, (r, m) in enumerate(zip(real, model)):
            if r != m:
                print("[%s] first difference at observation %d\n  impl : %s\n  model: %s" % (b, i, r[:600], m[:600]))
                rc_all = 1
                break
        if hits or rc != 0:
            rc_all = 1
    return rc_all

# Reasons for properties not (yet) claimed; regenerated into MANIFEST.not_applicable.
NOT_CLAIMED = {}
