"""Per-property configuration and the generic check runner."""
import os, sys, time, json, re
import core
from core import Violation

# Scenario batches: (profile, count_quick, count_thorough). Profiles are defined in harness/src/main.rs.
MAP_CORE = [("grow", 150, 4000), ("churn", 250, 8000), ("saturate", 120, 4000), ("mixed", 400, 12000)]

PROPS = {
    "C17": dict(
        module="Hb.Props.C17",
        ties=[("pure", {}), ("t1", {})],
        backends=["sse2", "portable"],
        design="§7 C17",
        text="Lean theorems for all capacities/sizes/alignments/table sizes (no bound); model tied to the source by "
             "exhaustive comparison of capacity_to_buckets on 1..2^22 (2^26 thorough) by breakpoints, boundary sets "
             "to usize::MAX, layout grid, probe positions, through cfg-guarded wrappers, in both back-end builds.",
        note="Trusted: Lean kernel; axioms propext, Classical.choice, Quot.sound; the harness, the hook wrappers and "
             "the line protocol; u64 arithmetic of rustc for the values compared. 32-bit usize is covered by the "
             "theorems (bits ≥ 16) but has no tie (cannot be built here).",
    ),
    "C09": dict(
        module="Hb.Props.C09",
        ties=[("scen", "iter", 300, 10000), ("scen", "mixed", 200, 6000), ("scen", "saturate", 40, 2000)],
        backends=["sse2", "portable"],
        design="§7 C09",
        text="Lean theorems: in every table state satisfying the structural invariant (proved preserved elsewhere; "
             "validated on every state of every run) RawIter::next yields exactly the full buckets once, fold = "
             "repeated next from any prefix, size_hint exact at every step, fused, default empty — unbounded in table "
             "size and occupancy. Tie: at the states of generated histories every public map iterator kind is walked "
             "on the real code with next/clone/fold switched at every prefix length and compared to the model.",
        note="Trusted: Lean kernel, axioms propext/Classical.choice/Quot.sound; harness + dump hook + protocol. The "
             "public wrappers (Iter, Keys, Values, IterMut, ValuesMut, IntoIter, Drain) are observed through the "
             "correspondence only; their Lean model is the shared RawIter. Set/table wrappers: via C06/C07 ties.",
    ),
}


def gen_seed(seed, i):
    return (seed * 1000003 + i * 7919) % (1 << 31)


def run_ties(pid, cfg, tier, seed, workdir, stats):
    thorough = tier == "thorough"
    for tie in cfg["ties"]:
        kind = tie[0]
        if kind == "pure":
            for b in cfg.get("backends", ["sse2"]):
                core.correspond(pid, tier, b, ["genpure", gen_seed(seed, 1), "thorough" if thorough else "quick"], workdir, stats)
        elif kind == "scen":
            _, profile, nq, nt = tie[:4]
            backends = tie[4] if len(tie) > 4 else cfg.get("backends", ["sse2"])
            n = nt if thorough else nq
            for b in backends:
                nb = n if b == "sse2" else max(20, n // 3)
                core.correspond(pid, tier, b, ["gen", profile, gen_seed(seed, hash(profile) % 97), nb], workdir, stats)
        elif kind == "t1":
            t1_tie(pid, stats)
        elif kind == "custom":
            tie[1](pid, tier, seed, workdir, stats)


def t1_tie(pid, stats):
    """Regenerate Hb/Gen/Pure.lean from /repo and re-check Gen = Model (if the translator exists)."""
    tr = os.path.join(core.VERIF, "translate", "rust2lean.py")
    geneq = os.path.join(core.LEAN, "Hb", "Proofs", "GenEq.lean")
    if not (os.path.exists(tr) and os.path.exists(geneq)):
        stats["notes"].append("T1 translator not present in this tree: tie by correspondence only")
        return
    out = os.path.join(core.LEAN, "Hb", "Gen", "Pure.lean")
    rc, log = core.sh(["python3-vt", tr, "--repo", core.REPO, "--out", out], timeout=600)
    if rc != 0:
        raise Violation("T1: translation of the pure functions failed (source outside the accepted subset or changed shape)",
                        "# translator output\n" + log[-3000:] + "\n# theorem/tie that no longer checks: Hb.Proofs.GenEq (generated definitions)\n", False)
    rc, log = core.sh(["lake", "build", "Hb.Proofs.GenEq"], cwd=core.LEAN, timeout=1800)
    stats["notes"].append("T1: Hb/Gen/Pure.lean regenerated from /repo, Hb.Proofs.GenEq rebuilt")
    if rc != 0:
        errs = "\n".join(l for l in log.splitlines() if "error" in l)[:3000]
        raise Violation("T1: generated definition no longer equals the model (Hb.Proofs.GenEq does not check)",
                        "# lemma(s) of Hb.Proofs.GenEq that no longer check:\n" + errs + "\n", False)


def run_check(pid, tier, seed):
    t0 = time.time()
    cfg = PROPS[pid]
    workdir = core.run_dir(pid, tier)
    stats = dict(evaluations=0, distinct=set(), samples=[], batches=[], notes=[])
    rc_final = 0
    messages = []
    # 1. theorems
    thm = core.check_theorems(cfg["module"])
    # 2. builds
    build_problem = None
    try:
        core.build_driver()
    except Exception as e:
        build_problem = str(e)
    backends = set(cfg.get("backends", ["sse2"]))
    for tie in cfg["ties"]:
        if tie[0] == "scen" and len(tie) > 4:
            backends |= set(tie[4])
    if not build_problem:
        for b in sorted(backends):
            ok, out = core.build_harness(b)
            if not ok:
                build_problem = "harness build (%s) against /repo failed:\n%s" % (b, out[-2500:])
                break
    violation = None
    if build_problem:
        violation = Violation("the verification build of /repo no longer compiles", "# " + build_problem.replace("\n", "\n# ") + "\n", False)
    else:
        try:
            run_ties(pid, cfg, tier, seed, workdir, stats)
        except Violation as v:
            violation = v
    if violation is None and thm["problems"]:
        violation = Violation("theorem(s) of %s no longer check: %s" % (cfg["module"], "; ".join(thm["problems"][:6])),
                              "# property theorems that no longer check (module %s)\n# %s\n" % (cfg["module"], "\n# ".join(thm["problems"])), False)
    nviol = 0
    if violation is not None:
        rc_final = core.report_violation(pid, violation.what, violation.replay_text, violation.found_input)
        nviol = 1 if rc_final else 0
    coverage = dict(
        obligations=thm["obligations"], discharged=thm["discharged"],
        checker_cmd="cd /verif/lean && lake build %s && lake env lean %s.lean  (kernel re-check; thorough: leanchecker)" % (cfg["module"], cfg["module"].replace(".", "/")),
        trusted_base=["Lean 4.33 kernel"] + ["axiom " + a for a in thm["axioms"]] + ["harness + hooks + line protocol (correspondence)"],
        theorems=thm["theorems"],
        evaluations=max(1, stats["evaluations"]), distinct_nontrivial=len(stats["distinct"]),
        rule="correspondence: one evaluation = one operation/function line executed on the implementation and on the model "
             "with full state dump compared; distinct = distinct post-states (dump text) observed",
        samples=stats["samples"] or ["(no correspondence batch ran)"],
        batches=stats["batches"], notes=stats["notes"],
        traces_validated_against_impl=len(stats["batches"]),
    )
    if tier == "thorough" and not thm.get("build_failed"):
        rc, out = core.sh(["lake", "env", "leanchecker", cfg["module"]], cwd=core.LEAN, timeout=3600)
        coverage["leanchecker"] = "ok" if rc == 0 else "FAILED: " + out[-500:]
        if rc != 0 and rc_final == 0:
            rc_final = core.report_violation(pid, "leanchecker rejects " + cfg["module"], out[-2000:], False, tag="leanchecker")
            nviol += 1
    core.write_evidence(pid, tier, seed, "proof", coverage,
                        [cfg["note"]], time.time() - t0, nviol)
    print("%s %s: theorems %d/%d, %d correspondence lines, %.1fs%s" % (
        pid, tier, thm["discharged"], thm["obligations"], stats["evaluations"], time.time() - t0,
        "" if rc_final == 0 else "  -> VIOLATION"))
    return rc_final


def replay(pid, path):
    """Re-execute a replay file on the implementation and the model, show the first difference."""
    text = "".join(l for l in open(path) if not l.startswith("#"))
    workdir = core.run_dir(pid, "replay")
    core.build_driver()
    rc_all = 0
    for b in PROPS[pid].get("backends", ["sse2"]):
        ok, out = core.build_harness(b)
        if not ok:
            print("build failed for", b)
            return 1
        real, model, rc = core.replay_on(b, text, workdir)
        hits = core.oracle_hits(real)
        print("[%s] implementation exit=%d, %d lines; oracle hits: %s" % (b, rc, len(real), hits[:3]))
        for i, (r, m) in enumerate(zip(real, model)):
            if r != m:
                print("[%s] first difference at observation %d\n  impl : %s\n  model: %s" % (b, i, r[:600], m[:600]))
                rc_all = 1
                break
        if hits or rc != 0:
            rc_all = 1
    return rc_all

# Reasons for properties not (yet) claimed; regenerated into MANIFEST.not_applicable.
NOT_CLAIMED = {}
