"""Check driver: theorems (lake/lean) + ties (translator, correspondence) + oracles + evidence."""
import sys, os, json, time, subprocess, re, shutil

VERIF = os.path.dirname(os.path.dirname(os.path.abspath(__file__)))
LEAN = os.path.join(VERIF, "lean")
HARNESS = os.path.join(VERIF, "harness")
CACHE = os.path.join(VERIF, ".cache")
EVID = os.path.join(VERIF, "evidence")
REPLAYS = os.path.join(EVID, "replays")
REPO = "/repo"
DRIVER = os.path.join(LEAN, ".lake", "build", "bin", "hbdriver")
TARGETS = {"sse2": os.path.join(CACHE, "target"), "portable": os.path.join(CACHE, "target-portable")}
RUSTFLAGS = {"sse2": "--cfg hashbrown_verif", "portable": "--cfg hashbrown_verif --cfg miri"}
FORBIDDEN = re.compile(r"\b(sorry|admit|native_decide|implemented_by)\b|^\s*axiom\s|\bunsafe\s|maxHeartbeats\s+0\b", re.M)
ALLOWED_AXIOMS = {"propext", "Classical.choice", "Quot.sound"}

ENV = dict(os.environ, CARGO_NET_OFFLINE="true")


TIMED_OUT = 124


def sh(cmd, cwd=None, env=None, timeout=None, inp=None):
    """Run a command; a command that does not finish within `timeout` seconds is killed and reported with
    exit code TIMED_OUT (never an exception: a hang of the implementation is a finding, not a crash of the check)."""
    try:
        p = subprocess.run(cmd, cwd=cwd, env=env or ENV, timeout=timeout, input=inp,
                           stdout=subprocess.PIPE, stderr=subprocess.STDOUT, text=True)
    except subprocess.TimeoutExpired as e:
        out = e.stdout if isinstance(e.stdout, str) else (e.stdout or b"").decode("utf-8", "replace")
        return TIMED_OUT, out + "\n[did not terminate within %d s: killed]\n" % int(timeout)
    return p.returncode, p.stdout


def batch_timeout(tier):
    """Time allowed for one generated batch on the real implementation (a quick batch normally takes seconds)."""
    return 7200 if tier == "thorough" else int(os.environ.get("HBV_BATCH_TIMEOUT", "600"))


class Violation(Exception):
    def __init__(self, what, replay_text, found_input):
        super().__init__(what)
        self.what, self.replay_text, self.found_input = what, replay_text, found_input


# ------------------------------------------------------------------ builds

def build_driver():
    rc, out = sh(["lake", "build", "hbdriver"], cwd=LEAN, timeout=1800)
    if rc != 0:
        raise RuntimeError("lake build hbdriver failed:\n" + out[-3000:])


def build_harness(backend):
    env = dict(ENV, RUSTFLAGS=RUSTFLAGS[backend], CARGO_TARGET_DIR=TARGETS[backend])
    rc, out = sh(["cargo", "build", "--offline"], cwd=HARNESS, env=env, timeout=1800)
    if rc != 0:
        return False, out
    return True, out


def hbv(backend):
    return os.path.join(TARGETS[backend], "debug", "hbv")


# ------------------------------------------------------------------ theorems

def strip_comments(src):
    src = re.sub(r"/-.*?-/", "", src, flags=re.S)
    return re.sub(r"--.*", "", src)


def lean_files_for(module):
    """Transitive local imports of a module (files under lean/Hb)."""
    seen, todo = [], [module]
    while todo:
        m = todo.pop()
        path = os.path.join(LEAN, m.replace(".", "/") + ".lean")
        if m in seen or not os.path.exists(path):
            continue
        seen.append(m)
        for imp in re.findall(r"^import\s+(Hb\.[\w.]+)", open(path).read(), flags=re.M):
            todo.append(imp)
    return seen


def check_theorems(module):
    """Build the property module, re-elaborate it to collect `#print axioms`, grep for forbidden
    constructs. Returns dict(obligations, discharged, axioms, theorems, problems)."""
    problems = []
    rc, out = sh(["lake", "build", module], cwd=LEAN, timeout=3600)
    if rc != 0:
        errs = [l for l in out.splitlines() if "error" in l][:12]
        return dict(obligations=1, discharged=0, axioms=[], theorems=[], problems=["lake build %s failed" % module] + errs,
                    build_failed=True, raw=out[-4000:])
    path = os.path.join(LEAN, module.replace(".", "/") + ".lean")
    src = open(path).read()
    ns = re.search(r"^namespace\s+([\w.]+)", src, flags=re.M)
    nsname = ns.group(1) if ns else "Hb"
    # lake replays the cached log of an up-to-date module, so the `#print axioms` lines are in `out`
    # (an axiom list may wrap over several lines); keep only this module's theorems. Fall back to
    # re-elaboration if they are not there.
    def parse(text):
        th, ax = [], set()
        for m in re.finditer(r"'([\w.']+)' depends on axioms:\s*\[([^\]]*)\]", text, flags=re.S):
            if not m.group(1).startswith(nsname + "."):
                continue
            th.append(m.group(1))
            for a in m.group(2).replace("\n", " ").split(","):
                a = a.strip()
                if a:
                    ax.add(a)
        for m in re.finditer(r"'([\w.']+)' does not depend on any axioms", text):
            if m.group(1).startswith(nsname + "."):
                th.append(m.group(1))
        return th, ax
    theorems, axioms = parse(out)
    if not theorems:
        rc, out2 = sh(["lake", "env", "lean", path], cwd=LEAN, timeout=1800)
        if rc != 0:
            problems.append("re-elaboration of %s failed" % module)
        theorems, axioms = parse(out2)
    declared = re.findall(r"^theorem\s+([\w.']+)", strip_comments(src), flags=re.M)
    printed = set(t.split(".")[-1] for t in theorems)
    for d in declared:
        if d.split(".")[-1] not in printed:
            problems.append("theorem %s has no #print axioms line" % d)
    bad_ax = [a for a in axioms if a not in ALLOWED_AXIOMS and "bv_decide" not in a]
    if bad_ax:
        problems.append("unexpected axioms: %s" % bad_ax)
    if "sorryAx" in axioms:
        problems.append("sorryAx")
    for mod in lean_files_for(module):
        p = os.path.join(LEAN, mod.replace(".", "/") + ".lean")
        hit = FORBIDDEN.search(strip_comments(open(p).read()))
        if hit:
            problems.append("forbidden construct %r in %s" % (hit.group(0).strip(), mod))
    n = max(1, len(declared))
    return dict(obligations=n, discharged=n if not problems else max(0, n - len(problems)),
                axioms=sorted(axioms), theorems=theorems, problems=problems, build_failed=False)


# ------------------------------------------------------------------ correspondence

def run_dir(pid, tier):
    d = os.path.join(CACHE, "run", "%s-%s" % (pid, tier))
    shutil.rmtree(d, ignore_errors=True)
    os.makedirs(d, exist_ok=True)
    return d


def run_driver(ops_path, model_path):
    with open(ops_path) as fi, open(model_path, "w") as fo:
        p = subprocess.run([DRIVER], stdin=fi, stdout=fo, stderr=subprocess.PIPE, text=True, timeout=3600)
    if p.returncode != 0:
        raise RuntimeError("model driver failed: " + p.stderr[-2000:])


def split_scenarios(ops_path):
    """Yield (header_lines, op_lines) per scenario; observations align with `scn`, ops and `end`."""
    cur = None
    for line in open(ops_path):
        line = line.rstrip("\n")
        if line.startswith("scn "):
            cur = {"pre": [line], "ops": []}
        elif cur is not None:
            if line.startswith(("op ", "fn ", "fnrange ")):
                cur["ops"].append(line)
            elif line.startswith("end"):
                yield cur
                cur = None
            else:
                (cur["pre"] if not cur["ops"] else cur["ops"]).append(line)


def first_divergence(ops_path, real_path, model_path):
    """Return None or dict(scn=<scenario dict>, op_index, real, model)."""
    real = open(real_path).read().split("\n")
    model = open(model_path).read().split("\n")
    if real == model:
        return None
    # align: every scenario contributes 1 (scn) + #observing lines + 1 (end) observation lines
    pos = 0
    for scn in split_scenarios(ops_path):
        obs_ops = [l for l in scn["ops"] if l.startswith(("op ", "fn ", "fnrange "))]
        n = 1 + len(obs_ops) + 1
        r, m = real[pos:pos + n], model[pos:pos + n]
        if r != m:
            for i in range(n):
                ri = r[i] if i < len(r) else "<missing>"
                mi = m[i] if i < len(m) else "<missing>"
                if ri != mi:
                    return dict(scn=scn, op_index=i - 1, real=ri, model=mi, n_ops=len(obs_ops))
        pos += n
    return dict(scn={"pre": ["scn ?"], "ops": []}, op_index=-1, real="<length mismatch>", model="<length mismatch>", n_ops=0)


def first_oracle_hit(ops_path, real_path):
    """First observation line of the implementation carrying a direct-oracle marker, with its scenario."""
    real = open(real_path).read().split("\n")
    pos = 0
    for scn in split_scenarios(ops_path):
        obs_ops = [l for l in scn["ops"] if l.startswith(("op ", "fn ", "fnrange "))]
        n = 1 + len(obs_ops) + 1
        for i in range(n):
            if pos + i < len(real) and ORACLE_RE.search(real[pos + i]):
                return dict(scn=scn, op_index=i - 1, real=real[pos + i], line=pos + i, n_ops=len(obs_ops))
        pos += n
    return None


def scenario_text(scn, upto=None, extra=()):
    """Scenario text with observing ops cut after index `upto` (inclusive)."""
    lines = list(scn["pre"])
    k = -1
    for l in scn["ops"]:
        if l.startswith(("op ", "fn ", "fnrange ")):
            k += 1
            if upto is not None and k > upto:
                break
        lines.append(l)
    lines.extend(extra)
    lines.append("end")
    return "\n".join(lines) + "\n"


def replay_on(backend, text, workdir, tag="r"):
    """Run scenario text on implementation and model; return (real_lines, model_lines)."""
    ops = os.path.join(workdir, tag + ".ops")
    open(ops, "w").write(text)
    rc, real = sh([hbv(backend), "replay", ops], timeout=600)
    model = os.path.join(workdir, tag + ".model")
    run_driver(ops, model)
    return real.split("\n"), open(model).read().split("\n"), rc


ORACLE_RE = re.compile(r"ORACLE-[A-Z]+\([^)]*\)|SIZE-HINT-INEXACT|NOT-FUSED|FOLD-MISMATCH|panic:other\([^)]*\)")


def oracle_hits(lines):
    return [(i, m.group(0)) for i, l in enumerate(lines) for m in [ORACLE_RE.search(l)] if m]


def shrink(backend, scn, upto, workdir, still_bad, budget_s=25):
    """ddmin-style removal of observing ops before `upto` while `still_bad(text)` holds."""
    t0 = time.time()
    ops = []
    k = -1
    for l in scn["ops"]:
        if l.startswith(("op ", "fn ", "fnrange ")):
            k += 1
            if k > upto:
                break
        ops.append(l)
    pre = list(scn["pre"])

    def text(o):
        return "\n".join(pre + o + ["end"]) + "\n"
    chunk = max(1, len(ops) // 2)
    while chunk >= 1 and time.time() - t0 < budget_s:
        i, changed = 0, False
        while i < len(ops) - 1 and time.time() - t0 < budget_s:   # keep the last op
            cand = ops[:i] + ops[min(i + chunk, len(ops) - 1):]
            if len(cand) < len(ops) and still_bad(text(cand)):
                ops, changed = cand, True
            else:
                i += chunk
        if not changed:
            chunk //= 2
    return text(ops)


def search_failing_input(backend, scn, upto, workdir, universe_keys):
    """Tie broken, oracle silent so far: drive the implementation on from the divergent state with
    look-ups of every key, iteration, churn and drop; return scenario text if a direct oracle fires."""
    tgt_ops = []
    for k in universe_keys:
        tgt_ops.append("op a get %d" % k)
    tgt_ops += ["op a iter 3 iter", "op a iter 0 keys", "op b iter 2 values", "op a eq", "op a retain",
                "op a shrink_to_fit", "op a reserve 40"]
    for k in universe_keys[:24]:
        tgt_ops.append("op a insert %d %d %d 7" % (k, 900000 + 2 * k, 900001 + 2 * k))
        tgt_ops.append("op a get %d" % k)
    for k in universe_keys[:24:2]:
        tgt_ops.append("op a remove %d" % k)
    tgt_ops += ["op a iter 1 iter", "op a drain 2 0", "op a nop", "op b clear", "op a clear"]
    text = scenario_text(scn, upto, extra=tgt_ops)
    real, model, rc = replay_on(backend, text, workdir, "search")
    hits = oracle_hits(real)
    if rc != 0:
        return text, "implementation crashed (exit %d) on the continuation" % rc
    if hits:
        return text, hits[0][1]
    return None, None


def universe_of(scn):
    keys = []
    for l in scn["pre"]:
        if l.startswith("plan "):
            keys += [int(kv.split("=")[0]) for kv in l.split()[1:]]
    return keys[:64] if keys else list(range(16))


def correspond(pid, tier, backend, gen_args, workdir, stats):
    """One generated batch: implementation vs model. Raises Violation."""
    prefix = os.path.join(workdir, "%s-%s" % (backend, "-".join(str(a) for a in gen_args)))
    rc, out = sh([hbv(backend)] + [str(a) for a in gen_args] + [prefix], timeout=batch_timeout(tier))
    if rc != 0:
        # the implementation crashed/aborted/hung: re-run with the crash journal to get the scenario that did it
        jpath = prefix + ".journal"
        rc2, out2 = sh([hbv(backend)] + [str(a) for a in gen_args] + [prefix + "-j"], env=dict(ENV, HBV_JOURNAL=jpath),
                       timeout=(300 if rc == TIMED_OUT and tier != "thorough" else batch_timeout(tier)))
        replay = ""
        if os.path.exists(jpath):
            lines = open(jpath).read().split("\n")
            starts = [i for i, l in enumerate(lines) if l.startswith("scn ")]
            if starts:
                body = [l for l in lines[starts[-1]:] if l.strip()]
                if gen_args and gen_args[0] == "genpure" and len(body) > 2:
                    # pure-function batch: the call that killed the process is the last journalled line
                    body = [body[0], body[-1]]
                replay = "\n".join(body) + "\nend\n"
        tail = (out2 if rc2 != 0 else out)[-1500:]
        raise Violation(("the implementation did not terminate (killed after the time limit) while executing a generated history (%s %s)" % (backend, gen_args))
                        if rc == TIMED_OUT else
                        "the implementation crashed or aborted (exit %d) while executing a generated history (%s %s)" % (rc, backend, gen_args),
                        ("# the last operation of this scenario does not terminate\n# " if rc == TIMED_OUT else
                         "# the last operation of this scenario kills the process (assertion / abort / signal)\n# ") +
                        tail.replace("\n", "\n# ") + "\n" + (replay or "# (no journal)\n"), bool(replay))
    ops, real, model = prefix + ".ops", prefix + ".real", prefix + ".model"
    run_driver(ops, model)
    nlines = sum(1 for _ in open(real))
    stats["evaluations"] += nlines
    stats["batches"].append(dict(backend=backend, gen=" ".join(str(a) for a in gen_args), lines=nlines))
    if not stats["samples"]:
        with open(ops) as f:
            head = [next(f, "").rstrip("\n") for _ in range(40)]
        stats["samples"] = [l[:300] for l in head if l.startswith(("scn", "op", "fn", "env"))][:8]
    distinct = set()
    with open(real) as f:
        for l in f:
            distinct.add(hash(l.split(" ; ")[1] if " ; " in l else l))
    stats["distinct"] |= distinct
    div = first_divergence(ops, real, model)
    if div is None:
        return
    # A direct oracle hit anywhere in the batch is a concrete failing input: prefer it to the first
    # (possibly harmless-looking) divergence.
    hit = first_oracle_hit(ops, real)
    if hit is not None and not (ORACLE_RE.search(div["real"]) or "end ORACLE" in div["real"]):
        model_lines = open(model).read().split("\n")
        div = dict(scn=hit["scn"], op_index=hit["op_index"], real=hit["real"],
                   model=model_lines[hit["line"]] if hit["line"] < len(model_lines) else "<missing>", n_ops=hit["n_ops"])
    scn, k = div["scn"], div["op_index"]
    head = "# property %s: implementation and model differ\n# backend=%s batch=%s\n" % (pid, backend, gen_args)
    diffnote = "# first difference at op %d of scenario '%s'\n# impl : %s\n# model: %s\n" % (
        k, scn["pre"][0], div["real"][:1500], div["model"][:1500])
    oracle = ORACLE_RE.search(div["real"]) or (("end ORACLE" in div["real"] or "end LEAK" in div["real"]) and re.search(r"end .*", div["real"]))
    if oracle:
        def bad(text):
            r, m, rc = replay_on(backend, text, workdir, "shr")
            return any(ORACLE_RE.search(x) or x.startswith("end ORACLE") for x in r) and r != m
        text = scenario_text(scn, k if k >= 0 else None)
        try:
            text = shrink(backend, scn, k if 0 <= k else div["n_ops"], workdir, bad)
        except Exception:
            pass
        raise Violation("direct oracle on the implementation: %s" % oracle.group(0),
                        head + diffnote + "# replay: ./check %s --replay <this file>\n" % pid + text, True)
    # tie broken, oracle silent: search for a failing input from the divergent state
    text, why = (None, None)
    if k >= 0:
        try:
            text, why = search_failing_input(backend, scn, k, workdir, universe_of(scn))
        except Exception as e:  # noqa
            text, why = None, None
    if text:
        raise Violation("correspondence broken, then direct oracle: %s" % why,
                        head + diffnote + "# continuation found a failing input: %s\n" % why + text, True)

    # still silent: the same generator with other seeds (implementation only), looking for a history on
    # which a direct oracle fires
    if gen_args and gen_args[0] == "gen" and len(gen_args) >= 4:
        for j in range(1, 13):
            alt = [gen_args[0], gen_args[1], (int(gen_args[2]) * 31 + j * 7919) % 2000000011, gen_args[3]] + list(gen_args[4:])
            pfx = os.path.join(workdir, "%s-search-%d" % (backend, j))
            rc_s, _ = sh([hbv(backend)] + [str(a) for a in alt] + [pfx], timeout=batch_timeout(tier))
            if rc_s != 0 or not os.path.exists(pfx + ".real"):
                continue
            hit = first_oracle_hit(pfx + ".ops", pfx + ".real")
            if hit is None:
                continue
            def bad3(t):
                r, m, rc = replay_on(backend, t, workdir, "shr")
                return any(ORACLE_RE.search(x) or x.startswith("end ORACLE") for x in r)
            try:
                text = shrink(backend, hit["scn"], hit["op_index"] if hit["op_index"] >= 0 else hit["n_ops"], workdir, bad3)
            except Exception:
                text = scenario_text(hit["scn"], hit["op_index"] if hit["op_index"] >= 0 else None)
            o = ORACLE_RE.search(hit["real"]) or re.search(r"end .*", hit["real"])
            raise Violation("correspondence broken; direct oracle on the implementation on another generated history: %s" % (o.group(0) if o else hit["real"][:200]),
                            head + diffnote + "# searched batch %s\n" % alt + text, True)

    def bad2(t):
        r, m, rc = replay_on(backend, t, workdir, "shr")
        return r != m
    try:
        mini = shrink(backend, scn, k if k >= 0 else div["n_ops"], workdir, bad2)
    except Exception:
        mini = scenario_text(scn, k if k >= 0 else None)
    raise Violation("correspondence between model and implementation no longer checks",
                    head + diffnote + "# no direct oracle fired on this history or on its continuation\n" + mini, False)


# ------------------------------------------------------------------ source fingerprints

BASELINE_FP = os.path.join(VERIF, "checklib", "src_baseline.json")


def _norm_rust(text):
    """Token-level normal form: comments and whitespace removed (string literals kept)."""
    out, i, n = [], 0, len(text)
    while i < n:
        c = text[i]
        if text.startswith("//", i):
            j = text.find("\n", i)
            i = n if j < 0 else j
        elif text.startswith("/*", i):
            depth, i = 1, i + 2
            while i < n and depth:
                if text.startswith("/*", i):
                    depth, i = depth + 1, i + 2
                elif text.startswith("*/", i):
                    depth, i = depth - 1, i + 2
                else:
                    i += 1
        elif c == '"':
            j = i + 1
            while j < n and text[j] != '"':
                j += 2 if text[j] == "\\" else 1
            out.append(text[i:j + 1])
            i = j + 1
        elif c.isspace():
            if out and out[-1] != " ":
                out.append(" ")
            i += 1
        else:
            out.append(c)
            i += 1
    return "".join(out)


def source_fingerprints(repo=None):
    import hashlib
    repo = repo or REPO
    fps = {}
    src = os.path.join(repo, "src")
    for root, _, files in os.walk(src):
        for f in sorted(files):
            if f.endswith(".rs"):
                p = os.path.join(root, f)
                rel = os.path.relpath(p, repo)
                if rel == "src/raw/verif.rs":
                    continue
                fps[rel] = hashlib.sha256(_norm_rust(open(p, errors="replace").read()).encode()).hexdigest()[:16]
    return fps


def changed_sources():
    """Files of /repo/src whose token stream differs from the tree the model was last validated against
    (checklib/src_baseline.json). Used ONLY to spend more search effort on a changed tree (more generated
    histories per tie); it never decides a property."""
    if not os.path.exists(BASELINE_FP):
        return []
    base = json.load(open(BASELINE_FP))
    cur = source_fingerprints()
    return sorted(k for k in set(base) | set(cur) if base.get(k) != cur.get(k))


# ------------------------------------------------------------------ known findings

def known_findings():
    p = os.path.join(VERIF, "known_findings.json")
    return json.load(open(p)) if os.path.exists(p) else []


def match_known(pid, what, replay_text):
    for f in known_findings():
        if f.get("status") != "known":
            continue
        if pid != f.get("property") and pid not in f.get("also", []):
            continue
        pats = f.get("match", {})
        if all(re.search(p, what + "\n" + replay_text) for p in pats.values()):
            return f
    return None


# ------------------------------------------------------------------ main

def write_evidence(pid, tier, seed, level, coverage, assumptions, wall, violations):
    os.makedirs(EVID, exist_ok=True)
    ev = dict(property_id=pid, tier=tier, seed=seed, level=level, coverage=coverage,
              assumptions=assumptions, wall_s=round(wall, 2), violations=violations)
    with open(os.path.join(EVID, pid + ".json"), "w") as f:
        json.dump(ev, f, indent=1)


def report_violation(pid, what, replay_text, found_input, tag="v"):
    os.makedirs(REPLAYS, exist_ok=True)
    path = os.path.join(REPLAYS, "%s-%s.txt" % (pid, tag))
    open(path, "w").write("# %s\n%s" % (what, replay_text))
    kf = match_known(pid, what, replay_text)
    if kf:
        print("KNOWN-FINDING: property=%s %s" % (pid, kf.get("what", "")))
        return 0
    tail = "" if found_input else " no-failing-input-found"
    print("VIOLATION property=%s replay=%s%s" % (pid, path, tail))
    print("  " + what)
    return 1


def setup():
    t0 = time.time()
    os.makedirs(CACHE, exist_ok=True)
    rc, out = sh(["lake", "build", "Hb", "hbdriver"], cwd=LEAN, timeout=7200)
    print(out[-1500:])
    if rc != 0:
        print("setup: lake build failed")
        return 1
    for b in ("sse2", "portable"):
        ok, out = build_harness(b)
        if not ok:
            print(out[-3000:])
            print("setup: cargo build (%s) failed" % b)
            return 1
    print("setup ok in %.0fs" % (time.time() - t0))
    return 0


def main(argv):
    if argv and argv[0] == "--setup":
        return setup()
    if argv and argv[0] == "--fingerprint":
        json.dump(source_fingerprints(), open(BASELINE_FP, "w"), indent=1, sort_keys=True)
        print("wrote", BASELINE_FP)
        return 0
    import props
    if len(argv) < 2:
        print(__doc__)
        return 2
    pid = argv[0]
    if pid not in props.PROPS:
        print("unknown property", pid)
        return 2
    if argv[1] == "--replay":
        return props.replay(pid, argv[2])
    tier = os.environ.get("VERIF_TIER") or argv[1]
    if tier not in ("quick", "thorough"):
        tier = "quick"
    seed = int(os.environ.get("VERIF_SEED", "1"))
    return props.run_check(pid, tier, seed)
