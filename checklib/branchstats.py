#!/usr/bin/env python3
"""Branch-event counts inferred from consecutive model/implementation state dumps."""
import sys, re, collections
def stats(path):
    c = collections.Counter()
    prev = None
    for line in open(path):
        if line.startswith("scn"):
            prev = None; c["scenarios"] += 1; continue
        m = re.search(r" ; m=(\d+) i=(\d+) g=(\d+) (?:c=([0-9a-f]*)|#)", line)
        if not m: continue
        c["ops"] += 1
        mask, items, gl, ctrl = int(m.group(1)), int(m.group(2)), int(m.group(3)), m.group(4)
        h = int(re.search(r" h=(\d+)", line).group(1))
        if line.startswith("panic:"): c["panic:" + line.split()[0].split(":")[1]] += 1
        if ctrl is None:
            cur = (mask, items, gl, None, h); c["hashed_dump"] += 1
        else:
            n = mask + 1
            by = [int(ctrl[2*i:2*i+2], 16) for i in range(len(ctrl)//2)]
            dele = sum(1 for b in by[:n] if b == 0x80) if len(by) > 16 or mask else 0
            cur = (mask, items, gl, dele, h)
            if n < (len(by) - n): c["state_small_table"] += 1
            elif n == len(by) - n: c["state_one_group"] += 1
            else: c["state_many_groups"] += 1
        if prev:
            pm, pi, pg, pd, ph = prev
            if mask != pm:
                c["resize_grow" if mask > pm else "resize_shrink"] += 1
            elif pd is not None and cur[3] is not None:
                if pd > 0 and cur[3] == 0 and h - ph >= max(1, pi) and items >= pi and pi > 0: c["rehash_in_place"] += 1
                elif cur[3] == pd + 1: c["erase_to_DELETED"] += 1
                elif cur[3] == pd - 1 and items == pi + 1: c["insert_on_tombstone"] += 1
                elif items == pi - 1 and cur[3] == pd: c["erase_to_EMPTY"] += 1
        prev = cur
    return c
if __name__ == "__main__":
    for p in sys.argv[1:]:
        print(p, dict(stats(p)))
